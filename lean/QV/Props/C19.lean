import QV.Model.C19
import Mathlib.Algebra.BigOperators.Group.List.Basic
import Mathlib.Data.List.Perm.Basic
import Mathlib.Data.List.Nodup
import Mathlib.Tactic.Ring
import Mathlib.Tactic.Abel
import Mathlib.Tactic.SplitIfs

/-!
# C19 — two-dimensional response storage conserves what was added
Theorems about the model `QV.C19` whose tables are re-extracted from
`quantarhei/spectroscopy/twod2.py` on every run.
-/
namespace QV.C19
open QV.Gen.C19

/-! ## facts about the extracted tables (finite, by `decide`) -/

/-- every pathway type belongs to exactly one process -/
theorem processes_partition_types : (processes.flatMap (·.2)).Perm ptypes := by decide
/-- every pathway type belongs to exactly one signal -/
theorem signals_partition_types : (signals.flatMap (·.2)).Perm ptypes := by decide
theorem ptypes_nodup : ptypes.Nodup := by decide
theorem process_names_nodup : (processes.map (·.1)).Nodup := by decide
theorem signal_names_nodup : (signals.map (·.1)).Nodup := by decide
/-- `total` is not the name of a type, process or signal -/
theorem total_is_fresh : total ∉ ptypes ∧ processes.lookup total = none ∧ signals.lookup total = none
    ∧ total ∉ processes.map (·.1) ∧ total ∉ signals.map (·.1) := by decide
/-- conversion paths only go downward, one admissible elementary step at a time -/
theorem paths_only_downward : ∀ p ∈ convPaths, p.2.1 < p.1 ∧ p.2.2.head? = some p.1 ∧
    p.2.2.getLast? = some p.2.1 ∧ p.2.2.Pairwise (· > ·) := by decide

section
variable {V : Type} [AddCommMonoid V]

/-! ## sums over the store -/

theorem sumAll_eq_sumWhere (cells : List (Key × V)) : sumAll cells = sumWhere (fun _ => true) cells := by
  simp [sumAll, sumWhere]

theorem sumWhere_cons (p : Key → Bool) (c : Key × V) (cs : List (Key × V)) :
    sumWhere p (c :: cs) = (if p c.1 then c.2 else 0) + sumWhere p cs := by
  unfold sumWhere
  by_cases h : p c.1 <;> simp [h]

theorem sumWhere_append (p : Key → Bool) (a b : List (Key × V)) :
    sumWhere p (a ++ b) = sumWhere p a + sumWhere p b := by
  simp [sumWhere]

/-- `storage[k] = storage.get(k, 0) + d` adds `d` to every view containing `k` and nothing else -/
theorem sumWhere_setKey (p : Key → Bool) (k : Key) (d : V) (cells : List (Key × V)) :
    sumWhere p (setKey k (lookupD k cells + d) cells) = sumWhere p cells + (if p k then d else 0) := by
  induction cells with
  | nil => by_cases h : p k <;> simp [setKey, lookupD, lookup, sumWhere, h]
  | cons c cs ih =>
    obtain ⟨k', v'⟩ := c
    by_cases h : k' = k
    · subst h
      simp only [setKey, lookupD, lookup, if_true, Option.getD_some, sumWhere_cons]
      split_ifs <;> first | abel | (simp; abel) | simp
    · have e : lookupD k ((k', v') :: cs) = lookupD k cs := by simp [lookupD, lookup, h]
      simp only [setKey, h, if_false, sumWhere_cons, e, ih]
      simp [add_assoc]


/-! ## one addition -/

/-- getter-then-setter adds `d` to exactly the addressed cell (the untagged read of a
pathway store is excluded: it returns the sum of the whole type, see `addCore`) -/
theorem getset_sum (p : Key → Bool) (s1 s2 : St V) (name : String) (tag : Option String) (d : V)
    (hx : ¬ (s1.res = 4 ∧ tag = none))
    (h : getset s1 name tag d = some s2) :
    s2.res = s1.res ∧ s2.init = s1.init ∧
    sumWhere p s2.cells = sumWhere p s1.cells +
      (if p ⟨name, if s1.res = 4 then tag else none⟩ then d else 0) := by
  unfold getset setFlag at h
  by_cases hn : name ∈ levelNames s1.res
  · simp only [hn, if_true] at h
    by_cases h4 : s1.res = 4
    · simp only [h4, if_true] at h ⊢
      cases hl : lookup (⟨name, tag⟩ : Key) s1.cells with
      | some v => simp [hl] at h
      | none =>
        simp only [hl] at h
        injection h with h
        subst h
        refine ⟨by simp [h4], rfl, ?_⟩
        simp only [sumWhere_append, sumWhere_cons]
        have hp : name ∈ ptypes := by simpa [levelNames, h4] using hn
        unfold readFlag
        simp only [h4, if_true, hp]
        by_cases hh : hasName name s1.cells
        · simp only [hh, not_true_eq_false, if_false]
          cases tag with
          | some t => simp [hl, sumWhere, Out.addTo]
          | none => exact absurd ⟨h4, rfl⟩ hx
        · simp [hh, sumWhere, Out.addTo]
    · simp only [h4, if_false] at h ⊢
      injection h with h
      subst h
      refine ⟨rfl, rfl, ?_⟩
      have key : (readFlag s1 name tag).addTo d = lookupD ⟨name, none⟩ s1.cells + d := by
        unfold readFlag
        simp only [h4, if_false]
        by_cases h3 : s1.res = 3
        · have hp : name ∈ ptypes := by simpa [levelNames, h3] using hn
          simp only [h3, if_true, hp]
          cases hl : lookup (⟨name, none⟩ : Key) s1.cells <;> simp [lookupD, hl, Out.addTo]
        · simp only [h3, if_false, hn, if_true]
          cases hl : lookup (⟨name, none⟩ : Key) s1.cells <;> simp [lookupD, hl, Out.addTo]
      rw [key]
      exact sumWhere_setKey p _ d _
  · simp [hn] at h

/-- names addressable at the three lower levels are not pathway types -/
theorem low_names_not_types : ∀ r ∈ [0, 1, 2], ∀ n ∈ levelNames r, n ∉ ptypes := by decide

/-- **a refused `_add_data` leaves the storage unchanged; an accepted one adds `d` to the
addressed cell only** (`p` is any view = any set of cells) -/
theorem addCore_sum (p : Key → Bool) (s1 s2 : St V) (r : Option String) (name : String)
    (tag : Option String) (d : V) (ok : Bool) (hres : s1.res ≤ 4)
    (h : addCore s1 r name tag d = (s2, ok)) :
    s2.res = s1.res ∧ s2.init = s1.init ∧ (ok = false → s2 = s1) ∧
    sumWhere p s2.cells = sumWhere p s1.cells + (if ok ∧ p ⟨name, tag⟩ then d else 0) := by
  unfold addCore at h
  split at h
  · injection h with h1 h2; subst h1; subst h2; simp
  · rename_i lev _
    split_ifs at h with hgt hmem hbad hf9
    · injection h with h1 h2; subst h1; subst h2; simp
    · injection h with h1 h2; subst h1; subst h2; simp
    · -- type-level data into a pathway store: accumulated in the None-tagged cell
      injection h with h1 h2; subst h1; subst h2
      have ht : tag = none := by
        cases tag with
        | none => rfl
        | some t => exact absurd (Or.inr ⟨by omega, rfl⟩) hbad
      subst ht
      refine ⟨rfl, rfl, by simp, ?_⟩
      simpa using sumWhere_setKey p ⟨name, none⟩ d s1.cells
    · split at h
      · rename_i s2' hg
        injection h with h1 h2; subst h1; subst h2
        have hx : ¬ (s1.res = 4 ∧ tag = none) := by
          rintro ⟨h4, rfl⟩
          have hlev : lev ≤ 2 := by
            have : lev ≠ 4 := fun e => hbad (Or.inl ⟨e, rfl⟩)
            have : ¬ (lev = 3) := fun e => hf9 ⟨e, h4⟩
            omega
          have hnp : name ∉ ptypes :=
            low_names_not_types lev (by
              have : lev = 0 ∨ lev = 1 ∨ lev = 2 := by omega
              rcases this with rfl | rfl | rfl <;> simp) name hmem
          unfold getset setFlag at hg
          simp only [h4, levelNames, true_or, if_true, hnp, if_false] at hg
          exact absurd hg (by simp)
        obtain ⟨e1, e2, e3⟩ := getset_sum p s1 _ name tag d hx hg
        refine ⟨e1, e2, by simp, ?_⟩
        rw [e3]
        by_cases h4 : s1.res = 4
        · simp [h4]
        · have ht : tag = none := by
            cases tag with
            | none => rfl
            | some t => exact absurd (Or.inr ⟨by omega, rfl⟩) hbad
          simp [h4, ht]
      · injection h with h1 h2; subst h1; subst h2; simp
    · injection h with h1 h2; subst h1; subst h2; simp

/-! ## generic facts about sums over the store -/

theorem sum_map_ite_eq (ns : List String) (hnd : ns.Nodup) (a : String) (ha : a ∈ ns) (v : V) :
    (ns.map (fun n => if a = n then v else 0)).sum = v := by
  induction ns with
  | nil => simp at ha
  | cons n ns ih =>
    rw [List.nodup_cons] at hnd
    simp only [List.map_cons, List.sum_cons]
    by_cases h : a = n
    · subst h
      have : (ns.map (fun n => if a = n then v else 0)) = ns.map (fun _ => (0 : V)) := by
        apply List.map_congr_left
        intro m hm
        have : a ≠ m := fun e => hnd.1 (e ▸ hm)
        simp [this]
      simp [this]
    · have ha' : a ∈ ns := by
        rcases List.mem_cons.mp ha with e | e
        · exact absurd e h
        · exact e
      simp [h, ih hnd.2 ha']

theorem sumName_cons (n : String) (c : Key × V) (cs : List (Key × V)) :
    sumName n (c :: cs) = (if c.1.name = n then c.2 else 0) + sumName n cs := by
  unfold sumName; rw [sumWhere_cons]; simp

/-- summing the per-name sums over a duplicate-free list of names that covers the store gives everything -/
theorem sum_map_sumName (ns : List String) (hnd : ns.Nodup) (cells : List (Key × V))
    (hall : ∀ c ∈ cells, c.1.name ∈ ns) :
    (ns.map (fun n => sumName n cells)).sum = sumAll cells := by
  induction cells with
  | nil => simp [sumName, sumWhere, sumAll]
  | cons c cs ih =>
    have h1 : (ns.map (fun n => sumName n (c :: cs))) =
        ns.map (fun n => (if c.1.name = n then c.2 else 0) + sumName n cs) :=
      List.map_congr_left (fun n _ => sumName_cons n c cs)
    rw [h1, List.sum_map_add, sum_map_ite_eq ns hnd c.1.name (hall c (by simp)) c.2,
      ih (fun c' hc' => hall c' (by simp [hc']))]
    simp [sumAll]

theorem sumName_eq_zero (n : String) (cells : List (Key × V)) (h : ∀ c ∈ cells, c.1.name ≠ n) :
    sumName n cells = 0 := by
  induction cells with
  | nil => simp [sumName, sumWhere]
  | cons c cs ih =>
    rw [sumName_cons, ih (fun c' hc' => h c' (by simp [hc']))]
    have := h c (by simp)
    simp [this]

/-- in a dictionary keyed by untagged names the entry of a name is the sum of that name -/
theorem lookupD_eq_sumName (cells : List (Key × V)) (hnd : (cells.map (·.1)).Nodup)
    (htag : ∀ c ∈ cells, c.1.tag = none) (n : String) :
    lookupD ⟨n, none⟩ cells = sumName n cells := by
  induction cells with
  | nil => simp [lookupD, lookup, sumName, sumWhere]
  | cons c cs ih =>
    obtain ⟨k, v⟩ := c
    rw [List.map_cons, List.nodup_cons] at hnd
    have ht : k.tag = none := htag (k, v) (by simp)
    have ihh := ih hnd.2 (fun c' hc' => htag c' (by simp [hc']))
    by_cases h : k = ⟨n, none⟩
    · subst h
      have hz : sumName n cs = 0 := by
        apply sumName_eq_zero
        intro c' hc' e
        apply hnd.1
        have : c'.1 = ⟨n, none⟩ := by
          have t' := htag c' (by simp [hc'])
          cases hk : c'.1 with
          | mk nm tg =>
            rw [hk] at t' e
            simp at t' e
            rw [t', e]
        rw [← this]
        exact List.mem_map.mpr ⟨c', hc', rfl⟩
      simp [lookupD, lookup, sumName_cons, hz]
    · have hne : k.name ≠ n := by
        intro e
        apply h
        cases k with
        | mk nm tg => simp at ht e; rw [ht, e]
      have : lookupD ⟨n, none⟩ ((k, v) :: cs) = lookupD ⟨n, none⟩ cs := by simp [lookupD, lookup, h]
      rw [this, ihh, sumName_cons]
      simp [hne]

theorem rowSum_flatMap (table : List (String × List String)) (f : String → V) :
    (table.map (fun p => (p.2.map f).sum)).sum = ((table.flatMap (·.2)).map f).sum := by
  induction table with
  | nil => simp
  | cons p ps ih => simp [List.flatMap_cons, ih]

/-- a table whose rows partition the pathway types: summing row sums = summing over all types -/
theorem table_sum (table : List (String × List String)) (hp : (table.flatMap (·.2)).Perm ptypes)
    (f : String → V) : (table.map (fun p => (p.2.map f).sum)).sum = (ptypes.map f).sum := by
  rw [rowSum_flatMap]
  exact (hp.map f).sum_eq

/-! ## well-formed storage -/

/-- what `_add_data`/`set_resolution` maintain: the resolution is one of the five, every stored
name belongs to the storage level, and below pathway level the store is a dictionary of untagged names -/
structure WF (s : St V) : Prop where
  res_le : s.res ≤ 4
  names : ∀ c ∈ s.cells, c.1.name ∈ levelNames s.res
  low : s.res < 4 → (s.cells.map (·.1)).Nodup ∧ ∀ c ∈ s.cells, c.1.tag = none

theorem setKey_keys (k : Key) (v : V) (cells : List (Key × V)) :
    (setKey k v cells).map (·.1) =
      if k ∈ cells.map (·.1) then cells.map (·.1) else cells.map (·.1) ++ [k] := by
  induction cells with
  | nil => simp [setKey]
  | cons c cs ih =>
    obtain ⟨k', v'⟩ := c
    by_cases h : k' = k
    · subst h; simp [setKey]
    · have h' : ¬ k = k' := fun e => h e.symm
      simp only [setKey, h, if_false, List.map_cons, ih, List.mem_cons, h', false_or]
      split_ifs <;> simp

theorem setKey_mem (k : Key) (v : V) (cells : List (Key × V)) (c : Key × V)
    (hc : c ∈ setKey k v cells) : c.1 = k ∨ c ∈ cells := by
  induction cells with
  | nil => simp [setKey] at hc; left; rw [hc]
  | cons c0 cs ih =>
    obtain ⟨k', v'⟩ := c0
    by_cases h : k' = k
    · subst h
      simp only [setKey, if_true, List.mem_cons] at hc
      rcases hc with e | e
      · left; rw [e]
      · right; simp [e]
    · simp only [setKey, h, if_false, List.mem_cons] at hc
      rcases hc with e | e
      · right; simp [e]
      · rcases ih e with e' | e'
        · left; exact e'
        · right; simp [e']

theorem WF_setKey (s : St V) (hw : WF s) (name : String) (v : V) (hn : name ∈ levelNames s.res) :
    WF { s with cells := setKey ⟨name, none⟩ v s.cells } := by
  refine ⟨hw.res_le, ?_, ?_⟩
  · intro c hc
    rcases setKey_mem _ _ _ c hc with e | e
    · rw [e]; exact hn
    · exact hw.names c e
  · intro hlt
    obtain ⟨h1, h2⟩ := hw.low hlt
    refine ⟨?_, ?_⟩
    · show ((setKey _ v s.cells).map (·.1)).Nodup
      rw [setKey_keys]
      split_ifs with hk
      · exact h1
      · rw [List.nodup_append]
        refine ⟨h1, by simp, ?_⟩
        intro a ha b hb
        simp at hb
        subst hb
        exact fun e => hk (e ▸ ha)
    · intro c hc
      rcases setKey_mem _ _ _ c hc with e | e
      · rw [e]
      · exact h2 c e

theorem WF_addCore (s1 s2 : St V) (hw : WF s1) (r : Option String) (name : String)
    (tag : Option String) (d : V) (ok : Bool) (h : addCore s1 r name tag d = (s2, ok)) : WF s2 := by
  unfold addCore at h
  split at h
  · injection h with h1 h2; subst h1; exact hw
  · rename_i lev _
    split_ifs at h with hgt hmem hbad hf9
    · injection h with h1 h2; subst h1; exact hw
    · injection h with h1 h2; subst h1; exact hw
    · injection h with h1 h2; subst h1
      exact WF_setKey s1 hw name _ (by
        have : levelNames s1.res = levelNames lev := by simp [levelNames, hf9.1, hf9.2]
        rw [this]; exact hmem)
    · split at h
      · rename_i s2' hg
        injection h with h1 h2; subst h1
        unfold getset setFlag at hg
        split_ifs at hg with hn h4
        · split at hg
          · exact absurd hg (by simp)
          · injection hg with hg; subst hg
            refine ⟨hw.res_le, ?_, ?_⟩
            · intro c hc
              rcases List.mem_append.mp hc with e | e
              · exact hw.names c e
              · simp at e; rw [e]; exact hn
            · intro hlt; exact absurd h4 (by simp at hlt; omega)
        · injection hg with hg; subst hg
          exact WF_setKey s1 hw name _ hn
      · injection h with h1 h2; subst h1; exact hw
    · injection h with h1 h2; subst h1; exact hw

theorem resIdx_le (r : String) (i : Nat) (h : resIdx r = some i) : i ≤ 4 := by
  unfold resIdx at h
  have hl : resolutions.length = 5 := by decide
  have := List.findIdx?_eq_some_iff_getElem.mp h
  obtain ⟨hi, _⟩ := this
  omega

theorem WF_initStep (s : St V) (hw : WF s) (r : Option String) : WF (initStep s r) := by
  unfold initStep
  split_ifs with hi
  · exact hw
  · refine ⟨?_, by simp, by simp⟩
    cases r with
    | none => exact hw.res_le
    | some r =>
      show (resIdx r).getD s.res ≤ 4
      cases hr : resIdx r with
      | none => exact hw.res_le
      | some i => exact resIdx_le r i hr

/-! ## reductions of the resolution -/

theorem levelNames_nodup (r : Nat) : (levelNames r).Nodup := by
  unfold levelNames
  split_ifs
  · exact ptypes_nodup
  · exact process_names_nodup
  · exact signal_names_nodup
  · simp

/-- sum of a row of dictionary entries = sum of the per-name sums -/
theorem rowSumKeys_eq (s : St V) (hw : WF s) (hlt : s.res < 4) (ts : List String) :
    rowSumKeys ts s.cells = (ts.map (fun t => sumName t s.cells)).sum := by
  unfold rowSumKeys
  congr 1
  apply List.map_congr_left
  intro t _
  exact lookupD_eq_sumName s.cells (hw.low hlt).1 (hw.low hlt).2 t

theorem sumAll_map_keys (ns : List String) (f : String → V) :
    sumAll (ns.map fun n => ((⟨n, none⟩ : Key), f n)) = (ns.map f).sum := by
  simp [sumAll, Function.comp_def]

theorem sumAll_map_rows (table : List (String × List String)) (g : String × List String → V) :
    sumAll (table.map fun p => ((⟨p.1, none⟩ : Key), g p)) = (table.map g).sum := by
  simp [sumAll, Function.comp_def]

/-- **an elementary reduction conserves the total** and yields a well-formed store of the new level -/
theorem convElem_ok (s : St V) (hw : WF s) (new : Nat) (c : List (Key × V))
    (h : convElem s.res new s.cells = some c) :
    sumAll c = sumAll s.cells ∧ WF ({ s with res := new, cells := c } : St V) ∧ new < s.res := by
  unfold convElem at h
  split_ifs at h with h43 h32 h31 h0
  · injection h with h; subst h
    have e : sumAll (ptypes.map fun t => ((⟨t, none⟩ : Key), sumName t s.cells)) = sumAll s.cells := by
      rw [sumAll_map_keys]
      exact sum_map_sumName ptypes ptypes_nodup s.cells (by
        intro c hc; have := hw.names c hc; simpa [levelNames, h43.1] using this)
    refine ⟨e, ⟨by show new ≤ 4; omega, ?_, ?_⟩, by omega⟩
    · intro c hc
      simp only [List.mem_map] at hc
      obtain ⟨t, ht, rfl⟩ := hc
      simpa [levelNames, h43.2] using ht
    · intro _
      refine ⟨?_, ?_⟩
      · simp only [List.map_map]
        have : ((fun c : Key × V => c.1) ∘ fun t => ((⟨t, none⟩ : Key), sumName t s.cells)) =
            fun t => (⟨t, none⟩ : Key) := rfl
        rw [this]
        exact List.Nodup.map (fun a b e => (Key.mk.inj e).1) ptypes_nodup
      · intro c hc
        simp only [List.mem_map] at hc
        obtain ⟨t, _, rfl⟩ := hc
        rfl
  · injection h with h; subst h
    have hlt : s.res < 4 := by omega
    have e : sumAll (processes.map fun p => ((⟨p.1, none⟩ : Key), rowSumKeys p.2 s.cells)) = sumAll s.cells := by
      rw [sumAll_map_rows processes (fun p => rowSumKeys p.2 s.cells)]
      have : (processes.map fun p => rowSumKeys p.2 s.cells) =
          processes.map (fun p => (p.2.map (fun t => sumName t s.cells)).sum) :=
        List.map_congr_left (fun p _ => rowSumKeys_eq s hw hlt p.2)
      rw [this, table_sum processes processes_partition_types]
      exact sum_map_sumName ptypes ptypes_nodup s.cells (by
        intro c hc; have := hw.names c hc; simpa [levelNames, h32.1] using this)
    refine ⟨e, ⟨by show new ≤ 4; omega, ?_, ?_⟩, by omega⟩
    · intro c hc
      simp only [List.mem_map] at hc
      obtain ⟨p, hp, rfl⟩ := hc
      have : p.1 ∈ processes.map (·.1) := List.mem_map.mpr ⟨p, hp, rfl⟩
      simpa [levelNames, h32.2] using this
    · intro _
      refine ⟨?_, ?_⟩
      · simp only [List.map_map]
        have : ((fun c : Key × V => c.1) ∘ fun p : String × List String => ((⟨p.1, none⟩ : Key), rowSumKeys p.2 s.cells)) =
            (fun n => (⟨n, none⟩ : Key)) ∘ (·.1) := rfl
        rw [this, ← List.map_map]
        exact List.Nodup.map (fun a b e => (Key.mk.inj e).1) process_names_nodup
      · intro c hc
        simp only [List.mem_map] at hc
        obtain ⟨t, _, rfl⟩ := hc
        rfl
  · injection h with h; subst h
    have hlt : s.res < 4 := by omega
    have e : sumAll (signals.map fun p => ((⟨p.1, none⟩ : Key), rowSumKeys p.2 s.cells)) = sumAll s.cells := by
      rw [sumAll_map_rows signals (fun p => rowSumKeys p.2 s.cells)]
      have : (signals.map fun p => rowSumKeys p.2 s.cells) =
          signals.map (fun p => (p.2.map (fun t => sumName t s.cells)).sum) :=
        List.map_congr_left (fun p _ => rowSumKeys_eq s hw hlt p.2)
      rw [this, table_sum signals signals_partition_types]
      exact sum_map_sumName ptypes ptypes_nodup s.cells (by
        intro c hc; have := hw.names c hc; simpa [levelNames, h31.1] using this)
    refine ⟨e, ⟨by show new ≤ 4; omega, ?_, ?_⟩, by omega⟩
    · intro c hc
      simp only [List.mem_map] at hc
      obtain ⟨p, hp, rfl⟩ := hc
      have : p.1 ∈ signals.map (·.1) := List.mem_map.mpr ⟨p, hp, rfl⟩
      simpa [levelNames, h31.2] using this
    · intro _
      refine ⟨?_, ?_⟩
      · simp only [List.map_map]
        have : ((fun c : Key × V => c.1) ∘ fun p : String × List String => ((⟨p.1, none⟩ : Key), rowSumKeys p.2 s.cells)) =
            (fun n => (⟨n, none⟩ : Key)) ∘ (·.1) := rfl
        rw [this, ← List.map_map]
        exact List.Nodup.map (fun a b e => (Key.mk.inj e).1) signal_names_nodup
      · intro c hc
        simp only [List.mem_map] at hc
        obtain ⟨t, _, rfl⟩ := hc
        rfl
  · injection h with h; subst h
    have hlt : s.res < 4 := by omega
    have e : sumAll [((⟨total, none⟩ : Key), rowSumKeys (levelNames s.res) s.cells)] = sumAll s.cells := by
      rw [rowSumKeys_eq s hw hlt]
      simp only [sumAll, List.map_cons, List.map_nil, List.sum_cons, List.sum_nil, add_zero]
      exact sum_map_sumName _ (levelNames_nodup _) s.cells hw.names
    refine ⟨e, ⟨by show new ≤ 4; omega, ?_, ?_⟩, by omega⟩
    · intro c hc
      simp only [List.mem_singleton] at hc
      subst hc
      simp [levelNames, h0.2]
    · intro _
      exact ⟨by simp, by intro c hc; simp only [List.mem_singleton] at hc; subst hc; rfl⟩

/-- what is in the store (nothing before the first `_add_data`) -/
def content (s : St V) : V := if s.init then sumAll s.cells else 0

theorem convPaths_steps_le : ∀ p ∈ convPaths, ∀ x ∈ p.2.2, x ≤ 4 := by decide

theorem walk_ok (path : List Nat) (s : St V) (hw : WF s) :
    WF (walk s path).1 ∧ content (walk s path).1 = content s ∧ (walk s path).1.init = s.init := by
  induction path generalizing s with
  | nil => exact ⟨hw, rfl, rfl⟩
  | cons st rest ih =>
    unfold walk
    split_ifs with he
    · exact ih s hw
    · split
      · rename_i c hc
        obtain ⟨e1, e2, e3⟩ := convElem_ok s hw st c hc
        have hw' : WF (convState s st c) := by
          unfold convState
          by_cases hi : s.init
          · simpa [hi] using e2
          · simp only [hi]
            exact ⟨by show st ≤ 4; have := hw.res_le; omega, by simp, by simp⟩
        obtain ⟨i1, i2, i3⟩ := ih _ hw'
        refine ⟨i1, ?_, i3⟩
        rw [i2]
        unfold content convState
        by_cases hi : s.init <;> simp [hi, e1]
      · exact ⟨hw, rfl, rfl⟩

/-- **`set_resolution` never changes what is stored in total** (admissible or refused) -/
theorem setRes_ok (s : St V) (hw : WF s) (r : String) :
    WF (setRes s r).1 ∧ content (setRes s r).1 = content s ∧ (setRes s r).1.init = s.init := by
  unfold setRes
  split
  · exact ⟨hw, rfl, rfl⟩
  · split_ifs
    · exact ⟨hw, rfl, rfl⟩
    · exact ⟨hw, rfl, rfl⟩
    · split
      · exact ⟨hw, rfl, rfl⟩
      · exact walk_ok _ s hw

theorem addData_ok (s : St V) (hw : WF s) (r : Option String) (name : String) (tag : Option String) (d : V) :
    WF (addData s r name tag d).1 ∧ (addData s r name tag d).1.init = true ∧
    content (addData s r name tag d).1 = content s + (if (addData s r name tag d).2 then d else 0) := by
  unfold addData
  have hw1 := WF_initStep s hw r
  have hi1 : (initStep s r).init = true := by unfold initStep; split_ifs with h <;> simp [h]
  have hc1 : content (initStep s r) = content s := by
    unfold initStep content
    split_ifs with h <;> simp_all [sumAll]
  generalize hres : addCore (initStep s r) r name tag d = res
  obtain ⟨s2, ok⟩ := res
  obtain ⟨e1, e2, _, e4⟩ := addCore_sum (fun _ => true) (initStep s r) s2 r name tag d ok hw1.res_le hres
  refine ⟨WF_addCore _ _ hw1 r name tag d ok hres, by simp [e2, hi1], ?_⟩
  rw [← hc1]
  unfold content
  simp only [e2, hi1, if_true, sumAll_eq_sumWhere, e4]
  simp

theorem step_ok (s : St V) (hw : WF s) (op : Op V) :
    WF (step s op).1 ∧ content (step s op).1 = content s + accepted s op ∧
      (s.init = true → (step s op).1.init = true) := by
  cases op with
  | add r n t d =>
    obtain ⟨h1, h2, h3⟩ := addData_ok s hw r n t d
    exact ⟨h1, by simpa [step, accepted] using h3, fun _ => h2⟩
  | setRes r =>
    obtain ⟨h1, h2, h3⟩ := setRes_ok s hw r
    exact ⟨h1, by simpa [step, accepted] using h2, fun h => by simpa [step, h] using h3⟩

theorem run_ok (ops : List (Op V)) (s : St V) (hw : WF s) :
    WF (run s ops) ∧ content (run s ops) = content s + acceptedSum s ops := by
  induction ops generalizing s with
  | nil => simp [run, acceptedSum, hw]
  | cons op rest ih =>
    obtain ⟨h1, h2, _⟩ := step_ok s hw op
    obtain ⟨i1, i2⟩ := ih (step s op).1 h1
    refine ⟨by simpa [run] using i1, ?_⟩
    have : run s (op :: rest) = run (step s op).1 rest := by simp [run]
    rw [this, i2, h2, acceptedSum, add_assoc]

theorem WF_fresh : WF (fresh : St V) := ⟨by simp [fresh], by simp [fresh], by simp [fresh]⟩

/-- reading the total spectrum of a well-formed initialised store gives the sum of all cells -/
theorem read_total (s : St V) (hw : WF s) :
    (readFlag s total none).toV = sumAll s.cells ∧ ¬ (readFlag s total none = .error) := by
  obtain ⟨t1, t2, t3, t4, t5⟩ := total_is_fresh
  have hle := hw.res_le
  unfold readFlag
  by_cases h4 : s.res = 4
  · simp only [h4, if_true, t1, if_false, t2, t3, Out.toV]
    have : (signals.map fun sg => rowSumNames sg.2 s.cells) =
        signals.map (fun p => (p.2.map (fun t => sumName t s.cells)).sum) := rfl
    rw [this, table_sum signals signals_partition_types]
    exact ⟨sum_map_sumName ptypes ptypes_nodup s.cells (by
      intro c hc; have := hw.names c hc; simpa [levelNames, h4] using this), by simp⟩
  · have hlt : s.res < 4 := by omega
    by_cases h3 : s.res = 3
    · simp only [h4, h3, if_true, if_false, t1, t2, t3, Out.toV]
      have : (processes.map fun p => rowSumKeys p.2 s.cells) =
          processes.map (fun p => (p.2.map (fun t => sumName t s.cells)).sum) :=
        List.map_congr_left (fun p _ => rowSumKeys_eq s hw hlt p.2)
      rw [this, table_sum processes processes_partition_types]
      exact ⟨sum_map_sumName ptypes ptypes_nodup s.cells (by
        intro c hc; have := hw.names c hc; simpa [levelNames, h3] using this), by simp⟩
    · simp only [h4, h3, if_false]
      have hall := sum_map_sumName _ (levelNames_nodup s.res) s.cells hw.names
      by_cases hm : total ∈ levelNames s.res
      · -- storage resolution "off": the single cell
        have hl : levelNames s.res = [total] := by
          unfold levelNames at hm ⊢
          split_ifs at hm ⊢ with a b c
          · exact absurd hm t1
          · exact absurd hm t4
          · exact absurd hm t5
          · rfl
        simp only [hm, if_true]
        have e := lookupD_eq_sumName s.cells (hw.low hlt).1 (hw.low hlt).2 total
        rw [hl] at hall
        simp only [List.map_cons, List.map_nil, List.sum_cons, List.sum_nil, add_zero] at hall
        cases hlk : lookup (⟨total, none⟩ : Key) s.cells with
        | some v =>
          simp only [Out.toV]
          refine ⟨?_, by simp⟩
          rw [← hall, ← e]; simp [lookupD, hlk]
        | none =>
          simp only [Out.toV]
          refine ⟨?_, by simp⟩
          rw [← hall, ← e]; simp [lookupD, hlk]
      · simp only [hm, if_false, if_true, Out.toV]
        rw [rowSumKeys_eq s hw hlt]
        exact ⟨hall, by simp⟩

/-- **C19, total view**: after any history of additions (any level, any tags, accepted or refused)
and any reductions of the resolution, the total spectrum read back equals the sum of everything
that was accepted. -/
theorem conservation_total (ops : List (Op V)) (hinit : (run (fresh : St V) ops).init = true) :
    (readFlag (run fresh ops) total none).toV = acceptedSum (fresh : St V) ops := by
  obtain ⟨hw, hc⟩ := run_ok ops (fresh : St V) WF_fresh
  rw [(read_total _ hw).1]
  have : content (fresh : St V) = 0 := by simp [content, fresh]
  rw [this, zero_add] at hc
  rw [← hc]
  simp [content, hinit]

/-- **inadmissible operations are refused without changing the stored data** -/
theorem refused_unchanged (s : St V) (hs : s.init = true) (hle : s.res ≤ 4) (r : Option String) (name : String)
    (tag : Option String) (d : V) (h : (addData s r name tag d).2 = false) :
    (addData s r name tag d).1 = s := by
  unfold addData at h ⊢
  have hi : initStep s r = s := by simp [initStep, hs]
  rw [hi] at h ⊢
  generalize hres : addCore s r name tag d = res at h ⊢
  obtain ⟨s2, ok⟩ := res
  simp only at h
  subst h
  exact (addCore_sum (fun _ => true) s s2 r name tag d false hle hres).2.2.1 rfl

/-- per-view conservation, one step: an accepted addition addressed to `(name, tag)` raises the
stored amount of every pathway type / process / signal / tag by `d` if it is the addressed one
and leaves every other one unchanged -/
theorem view_add (s1 s2 : St V) (r : Option String) (name : String) (tag : Option String) (d : V)
    (hres : s1.res ≤ 4) (h : addCore s1 r name tag d = (s2, true)) (n : String) :
    sumName n s2.cells = sumName n s1.cells + (if name = n then d else 0) := by
  have := (addCore_sum (fun k => k.name == n) s1 s2 r name tag d true hres h).2.2.2
  simpa [sumName] using this

/-- non-vacuity: a history mixing levels, a refused duplicate tag and a reduction; total 1+10+10 -/
example : (readFlag (run (fresh : St Int)
    [.add (some "pathways") "R1g" (some "a") 1, .add (some "types") "R1g" none 10,
     .add (some "pathways") "R1g" (some "a") 5, .add (some "types") "R1g" none 10,
     .setRes "off"]) total none).toV = 21 := by decide
end
end QV.C19
