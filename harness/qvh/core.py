"""Shared machinery of the quantarhei verification checks.

Every check (`./check Cxx --tier quick|thorough`) is an instance of `Check`:

  1. regenerate QV/Gen/*.lean from /repo's current source (extractor, T2);
  2. `lake build` the property's theorem module; hygiene grep; axiom audit;
  3. correspondence (T1): drive the real code and the Lean model with the
     same lines and diff the canonical outputs;
  4. direct oracle: the property statement evaluated on the implementation;
  5. when 1-3 break, or 4 fails: search for a failing input, report
     VIOLATION (with `no-failing-input-found` when none is found) unless the
     failure is listed in known_findings.json (-> KNOWN-FINDING line).

Exit codes: 0 held / known findings only, 1 violation, 2 infrastructure.
"""
import os, sys, re, json, time, random, subprocess, fcntl, hashlib, shutil, tempfile, atexit, traceback
from fractions import Fraction
from collections import Counter

ROOT = os.path.dirname(os.path.dirname(os.path.dirname(os.path.abspath(__file__))))
LEAN = os.path.join(ROOT, "lean")
REPO = os.environ.get("VERIF_REPO", "/repo")
STD_AXIOMS = {"propext", "Classical.choice", "Quot.sound"}
FORBIDDEN = re.compile(r"\bsorry\b|\badmit\b|^\s*axiom\s|native_decide|bv_decide|implemented_by|\bunsafe\s|maxHeartbeats\s+0\b", re.M)


class Infra(Exception):
    """infrastructure problem: exit code 2, never a violation"""


# ----------------------------------------------------------------------------
# environment for importing quantarhei from /repo's working tree
# ----------------------------------------------------------------------------
_scratch = None


def scratch_dir():
    global _scratch
    if _scratch is None:
        _scratch = tempfile.mkdtemp(prefix="qvh-")
        atexit.register(shutil.rmtree, _scratch, True)
    return _scratch


def import_quantarhei():
    """import quantarhei from REPO (never from site-packages) with a scratch HOME"""
    os.environ["HOME"] = scratch_dir()
    os.environ.setdefault("MPLBACKEND", "Agg")
    if REPO not in sys.path:
        sys.path.insert(0, REPO)
    import warnings
    warnings.simplefilter("ignore")
    import quantarhei
    if not os.path.abspath(quantarhei.__file__).startswith(os.path.abspath(REPO)):
        raise Infra("quantarhei imported from %s, not from %s" % (quantarhei.__file__, REPO))
    return quantarhei


# ----------------------------------------------------------------------------
# exact numbers on the wire
# ----------------------------------------------------------------------------
def frac(x):
    """exact rational of an int / float / Fraction as 'p/q' or 'p'"""
    if isinstance(x, Fraction):
        f = x
    elif isinstance(x, int):
        f = Fraction(x)
    else:
        f = Fraction(float(x))
    return str(f.numerator) if f.denominator == 1 else "%d/%d" % (f.numerator, f.denominator)


def cfrac(z):
    z = complex(z)
    return frac(z.real) + "," + frac(z.imag)


def parse_frac(s):
    return Fraction(s)


try:
    sys.set_int_max_str_digits(0)     # exact rationals from the model can be thousands of digits long
except AttributeError:
    pass


def parse_cfrac(s):
    a = s.split(",")
    re_ = Fraction(a[0])
    im_ = Fraction(a[1]) if len(a) > 1 else Fraction(0)
    return re_, im_


def cfrac_to_complex(s):
    r, i = parse_cfrac(s)
    return complex(float(r), float(i))


# ----------------------------------------------------------------------------
# Lean side
# ----------------------------------------------------------------------------
class _Lock:
    def __enter__(self):
        os.makedirs(os.path.join(LEAN, ".lake"), exist_ok=True)
        self.f = open(os.path.join(LEAN, ".lake", "qvh.lock"), "w")
        fcntl.flock(self.f, fcntl.LOCK_EX)
        return self

    def __exit__(self, *a):
        fcntl.flock(self.f, fcntl.LOCK_UN)
        self.f.close()


def write_if_changed(path, content):
    os.makedirs(os.path.dirname(path), exist_ok=True)
    try:
        with open(path) as f:
            if f.read() == content:
                return False
    except FileNotFoundError:
        pass
    tmp = path + ".tmp%d" % os.getpid()
    with open(tmp, "w") as f:
        f.write(content)
    os.replace(tmp, path)
    return True


def run_cmd(cmd, cwd=None, inp=None, timeout=1800):
    t0 = time.time()
    try:
        p = subprocess.run(cmd, cwd=cwd, input=inp, capture_output=True, text=True, timeout=timeout)
    except subprocess.TimeoutExpired:
        raise Infra("timeout after %ds: %s" % (timeout, " ".join(cmd)))
    return p.returncode, p.stdout, p.stderr, time.time() - t0


def strip_lean_comments(src):
    src = re.sub(r"/-.*?-/", "", src, flags=re.S)
    src = re.sub(r"--.*", "", src)
    return src


def lean_files_for(modules):
    out = []
    for m in modules:
        out.append(os.path.join(LEAN, m.replace(".", "/") + ".lean"))
    return out


def transitive_local_imports(module, seen=None):
    seen = seen if seen is not None else []
    if module in seen:
        return seen
    path = os.path.join(LEAN, module.replace(".", "/") + ".lean")
    if not os.path.exists(path):
        return seen
    seen.append(module)
    with open(path) as f:
        for line in f:
            m = re.match(r"\s*(?:public\s+)?import\s+(QV\.[\w.]+)", line)
            if m:
                transitive_local_imports(m.group(1), seen)
    return seen


def theorem_spans(path, namespace):
    """[(fullname, kind, first_line, last_line)] of top-level theorem/example declarations"""
    with open(path) as f:
        lines = f.read().split("\n")
    decls = []
    ns = []
    for i, l in enumerate(lines):
        m = re.match(r"^namespace\s+(\S+)", l)
        if m:
            ns.append(m.group(1))
        m = re.match(r"^end\s+(\S+)", l)
        if m and ns and ns[-1].split(".")[-1] == m.group(1).split(".")[-1]:
            ns.pop()
        m = re.match(r"^(?:@\[[^\]]*\]\s*)?(?:private\s+|protected\s+)?(theorem|lemma|example|def|abbrev|instance|structure|inductive)\b\s*([^\s:({\[]*)", l)
        if m:
            kind, name = m.group(1), m.group(2)
            full = ".".join(ns + [name]) if name else ""
            decls.append([full, kind, i + 1, len(lines)])
    for a, b in zip(decls, decls[1:]):
        a[3] = b[2] - 1
    return [tuple(d) for d in decls]


# ----------------------------------------------------------------------------
# the check object
# ----------------------------------------------------------------------------
class Check:
    def __init__(self, pid, tier, seed, replay=None):
        self.pid, self.tier, self.seed, self.replay_in = pid, tier, seed, replay
        self.t0 = time.time()
        self.rng = random.Random("%s:%d" % (pid, seed))
        self.evaluations = 0
        self.keys = set()
        self.samples = []
        self.dist = Counter()
        self.residuals = {}
        self.traces = 0
        self.disagreements = []      # correspondence differences (dicts)
        self.failures = []           # oracle failures (dicts with 'key','what','input')
        self.tie_broken = []         # extractor problems
        self.fallbacks = []          # static extraction failed, reference tables + correspondence used instead
        self.boost = 1
        self.proof_broken = []       # theorem names / messages
        self.obligations = 0
        self.discharged = 0
        self.axioms = {}
        self.checker_cmds = []
        self.trusted = []
        self.assumptions = []
        self.rule = ""
        self.exhaustive = None
        self.extra = {}
        self.quick = tier == "quick"
        self.known = [k for k in json.load(open(os.path.join(ROOT, "known_findings.json")))["findings"]
                      if k["property"] == pid]

    # -- sizes -------------------------------------------------------------
    def n(self, quick, thorough):
        v = quick if self.quick else thorough
        return v * self.boost if isinstance(v, int) and not isinstance(v, bool) else v

    # -- bookkeeping -------------------------------------------------------
    def case(self, key, nontrivial=True, sample=None, **dist):
        """count one evaluated case; `key` identifies it for distinctness"""
        self.evaluations += 1
        if nontrivial:
            self.keys.add(hashlib.sha1(repr(key).encode()).hexdigest())
        if sample is not None and len(self.samples) < 6:
            self.samples.append(sample)
        for k, v in dist.items():
            self.dist["%s=%s" % (k, v)] += 1

    def resid(self, name, value):
        value = float(value)
        self.residuals[name] = max(self.residuals.get(name, 0.0), value)

    def disagree(self, what, inp, impl, model):
        self.disagreements.append({"what": what, "input": inp, "impl": impl, "model": model})

    def fail(self, key, what, inp, observed=None, required=None):
        """the property statement is false on the real implementation for `inp`"""
        self.failures.append({"key": key, "what": what, "input": inp,
                              "observed": observed, "required": required})

    # -- Lean --------------------------------------------------------------
    def gen(self, name, content, facts=None):
        """(re)generate QV/Gen/<name>.lean from source-derived content; `facts`: what the extractor hands to the harness
        (kept next to the table so that harness/genref.py can freeze both as the reference)"""
        header = "-- GENERATED by the extractor from /repo on every run; do not edit.\n"
        with _Lock():
            write_if_changed(os.path.join(LEAN, "QV", "Gen", name + ".lean"), header + content)
            if facts is not None:
                os.makedirs(os.path.join(LEAN, ".lake"), exist_ok=True)
                json.dump(facts, open(os.path.join(LEAN, ".lake", "facts_%s.json" % name), "w"), default=list)

    def gen_facts(self, name, facts):
        with _Lock():
            os.makedirs(os.path.join(LEAN, ".lake"), exist_ok=True)
            json.dump(facts, open(os.path.join(LEAN, ".lake", "facts_%s.json" % name), "w"), default=list)

    def tie_fail(self, msg):
        self.tie_broken.append(msg)

    def tie_fallback(self, name, msg, default=None):
        """The static extraction of QV/Gen/<name>.lean failed (the source left the extractable subset).  Second tie mode:
        restore the committed reference tables (QV/GenRef/<name>.lean.ref, generated from the unchanged tree) and let the
        model/implementation correspondence and the oracles of this run - three times as many cases - decide.  Returns the
        reference facts (QV/GenRef/<name>.json) or `default`; without a reference the tie is broken as before."""
        ref = os.path.join(LEAN, "QV", "GenRef", name + ".lean.ref")
        if not os.path.exists(ref) or os.environ.get("QV_NO_TIE_FALLBACK"):
            self.tie_fail(msg)
            return default
        with _Lock():
            write_if_changed(os.path.join(LEAN, "QV", "Gen", name + ".lean"), open(ref).read())
        self.fallbacks.append({"tables": "QV/Gen/%s.lean" % name, "static_extraction_failed": msg[:400]})
        self.boost = 3
        fj = os.path.join(LEAN, "QV", "GenRef", name + ".json")
        if os.path.exists(fj):
            return json.load(open(fj))
        return True

    def build(self, module, timeout=3000):
        """lake build one module; returns (ok, output)"""
        with _Lock():
            rc, out, err, dt = run_cmd(["lake", "build", module], cwd=LEAN, timeout=timeout)
        self.checker_cmds.append("cd lean && lake build " + module)
        return rc == 0, out + err

    def prove(self, props_module, extra_modules=(), also=()):
        """build the property theorems, grep hygiene, audit axioms; `also`: further theorem modules whose theorems
        are counted and audited like those of `props_module`"""
        path = os.path.join(LEAN, props_module.replace(".", "/") + ".lean")
        spans = theorem_spans(path, None)
        thms = [s for s in spans if s[1] in ("theorem", "lemma")]
        exs = [s for s in spans if s[1] == "example"]
        also_thms = []
        for m in also:
            sp = theorem_spans(os.path.join(LEAN, m.replace(".", "/") + ".lean"), None)
            also_thms += [s for s in sp if s[1] in ("theorem", "lemma")]
        self.obligations = len(thms) + len(exs) + len(also_thms)
        self.theorems = [t[0] for t in thms + also_thms]
        ok, out = self.build(props_module)
        for m in tuple(also) + tuple(extra_modules):
            ok2, out2 = self.build(m)
            if not ok2:
                self.proof_broken.append("module %s does not build" % m)
                self.extra.setdefault("build_errors", []).append(out2[-3000:])
                if m in also:
                    ok = False
        broken = set()
        if not ok:
            hit = False
            for m in re.finditer(r"error: ([^\s:]+\.lean):(\d+):(\d+): (.*)", out):
                f, ln, msg = m.group(1), int(m.group(2)), m.group(4)
                if os.path.abspath(os.path.join(LEAN, f)) == os.path.abspath(path) or f.endswith(props_module.replace(".", "/") + ".lean"):
                    for s in spans:
                        if s[2] <= ln <= s[3]:
                            broken.add(s[0] or ("example@%d" % s[2]))
                            hit = True
                else:
                    broken.add("%s:%d %s" % (f, ln, msg[:120]))
                    hit = True
            if not hit:
                broken.add("lake build %s failed" % props_module)
            self.extra.setdefault("build_errors", []).append(out[-4000:])
            self.proof_broken.extend(sorted(broken))
        # hygiene
        mods = transitive_local_imports(props_module)
        for m in tuple(also) + tuple(extra_modules):
            transitive_local_imports(m, mods)
        for f in lean_files_for(mods):
            src = strip_lean_comments(open(f).read())
            m = FORBIDDEN.search(src)
            if m:
                self.proof_broken.append("forbidden construct %r in %s" % (m.group(0).strip(), os.path.relpath(f, LEAN)))
        self.checker_cmds.append("grep -E 'sorry|admit|^axiom |native_decide|bv_decide|implemented_by|unsafe |maxHeartbeats 0' over %d local modules (comments stripped): must be empty" % len(mods))
        # audit
        thms = thms + also_thms
        if ok and thms:
            audit = "import %s\n" % props_module + "".join("import %s\n" % m for m in also) + "".join("#print axioms %s\n" % t[0] for t in thms)
            apath = os.path.join(LEAN, ".lake", "audit_%s.lean" % self.pid)
            with _Lock():
                write_if_changed(apath, audit)
                rc, aout, aerr, dt = run_cmd(["lake", "env", "lean", apath], cwd=LEAN, timeout=1800)
            self.checker_cmds.append("lake env lean .lake/audit_%s.lean  (#print axioms for %d theorems)" % (self.pid, len(thms)))
            txt = aout + aerr
            if rc != 0:
                self.proof_broken.append("axiom audit failed to run: " + txt[-500:])
            found = {}
            for m in re.finditer(r"'(\S+)' depends on axioms: \[([^\]]*)\]", txt, re.S):
                found[m.group(1)] = set(a.strip() for a in m.group(2).replace("\n", " ").split(",") if a.strip())
            for m in re.finditer(r"'(\S+)' does not depend on any axioms", txt):
                found[m.group(1)] = set()
            good = 0
            for t in thms:
                ax = found.get(t[0])
                if ax is None:
                    self.proof_broken.append("no axiom report for " + t[0])
                elif not ax <= STD_AXIOMS:
                    self.proof_broken.append("%s depends on non-standard axioms %s" % (t[0], sorted(ax - STD_AXIOMS)))
                else:
                    good += 1
                    for a in ax:
                        self.axioms[a] = self.axioms.get(a, 0) + 1
            self.discharged = good + (len(exs) if not broken else 0)
        elif ok:
            self.discharged = len(exs)
        else:
            self.discharged = 0
        if self.tier == "thorough" and ok:
            with _Lock():
                rc, cout, cerr, dt = run_cmd(["lake", "env", "leanchecker", props_module] + list(also), cwd=LEAN, timeout=3000)
            self.checker_cmds.append("lake env leanchecker " + " ".join([props_module] + list(also)))
            self.extra["leanchecker"] = {"rc": rc, "wall_s": round(dt, 1), "tail": (cout + cerr)[-300:]}
            if rc != 0:
                self.proof_broken.append("leanchecker rejected " + props_module)
        return not self.proof_broken

    def drive(self, driver_module, lines, timeout=1800, args=()):
        """pipe op lines through the Lean model driver; returns output lines"""
        if not lines:
            return []
        path = os.path.join("QV", "Drive", driver_module + ".lean")
        inp = "\n".join(lines) + "\n"
        rc, out, err, dt = run_cmd(["lake", "env", "lean", "--run", path] + [str(a) for a in args], cwd=LEAN, inp=inp, timeout=timeout)
        if rc != 0:
            # a model driver that does not compile is a broken tie, not an infra error
            self.tie_broken.append("model driver %s failed: %s" % (driver_module, (err + out)[-800:]))
            return None
        res = out.split("\n")
        if res and res[-1] == "":
            res.pop()
        if len(res) != len(lines):
            self.tie_broken.append("model driver %s: %d lines in, %d out" % (driver_module, len(lines), len(res)))
            return None
        self.extra["driver_lines"] = self.extra.get("driver_lines", 0) + len(lines)
        return res

    # -- finish ------------------------------------------------------------
    def _replay_path(self, tag):
        d = os.path.join(ROOT, "replays")
        os.makedirs(d, exist_ok=True)
        return os.path.join(d, "%s_%s_seed%d_%s.json" % (self.pid, self.tier, self.seed, tag))

    def finish(self, search=None):
        """decide, print, write evidence; returns exit code"""
        broken = bool(self.tie_broken or self.proof_broken or self.disagreements)
        if broken and search is not None:
            # a broken obligation is not by itself a violation: look for a failing input
            try:
                search()
            except Infra:
                raise
            except Exception:
                self.extra["search_error"] = traceback.format_exc()[-1500:]
        lines = []
        new_failures = []
        seen_known = set()
        for f in self.failures:
            k = next((k for k in self.known if k.get("status", "open") == "open" and re.fullmatch(k["key"], f["key"])), None)
            if k is not None:
                if k["key"] not in seen_known:
                    seen_known.add(k["key"])
                    lines.append("KNOWN-FINDING: property=%s %s" % (self.pid, k["what"]))
            else:
                new_failures.append(f)
        exit_code = 0
        violations = 0
        if new_failures:
            violations = len(new_failures)
            p = self._replay_path("violation")
            json.dump({"property": self.pid, "seed": self.seed, "tier": self.tier,
                       "kind": "failing-input", "failures": new_failures[:20],
                       "broken_obligations": self.proof_broken, "tie_broken": self.tie_broken,
                       "disagreements": self.disagreements[:10],
                       "rerun": "VERIF_SEED=%d ./check %s --tier %s" % (self.seed, self.pid, self.tier)},
                      open(p, "w"), indent=1, default=str)
            lines.append("VIOLATION property=%s replay=%s" % (self.pid, os.path.relpath(p, ROOT)))
            exit_code = 1
        elif broken:
            violations = 1
            p = self._replay_path("unproved")
            json.dump({"property": self.pid, "seed": self.seed, "tier": self.tier,
                       "kind": "obligation-no-longer-checks",
                       "theorems_or_ties": self.proof_broken + self.tie_broken + ["(reference tables in use) " + f["static_extraction_failed"] for f in self.fallbacks],
                       "correspondence_differences": self.disagreements[:20],
                       "detail": self.extra.get("build_errors", [])[:2],
                       "note": "no failing input found by the search on model and implementation",
                       "rerun": "VERIF_SEED=%d ./check %s --tier %s" % (self.seed, self.pid, self.tier)},
                      open(p, "w"), indent=1, default=str)
            lines.append("VIOLATION property=%s replay=%s no-failing-input-found" % (self.pid, os.path.relpath(p, ROOT)))
            exit_code = 1
        wall = time.time() - self.t0
        cov = {
            "obligations": self.obligations, "discharged": self.discharged,
            "checker_cmd": " ; ".join(self.checker_cmds) or "none",
            "trusted_base": ["Lean 4.33 kernel", "axioms used by the property theorems: %s" % (sorted(self.axioms) or "none"),
                             "Mathlib v4.33 (checked by the same kernel)"] + self.trusted,
            "evaluations": self.evaluations, "distinct_nontrivial": len(self.keys),
            "rule": self.rule, "samples": self.samples[:6] or ["(no generated cases in this run)"],
            "traces_validated_against_impl": self.traces,
            "input_distribution": dict(sorted(self.dist.items())),
            "external_contract_residuals": self.residuals,
            "theorems": getattr(self, "theorems", []),
            "broken_obligations": self.proof_broken, "tie_broken": self.tie_broken,
            "correspondence_differences": len(self.disagreements),
            "oracle_failures": len(self.failures), "known_findings_reproduced": sorted(seen_known),
        }
        if self.exhaustive is not None:
            cov["exhaustive"] = self.exhaustive
        if self.fallbacks:
            cov["tie_fallback"] = self.fallbacks
            cov["tie_mode"] = ("static extraction failed; committed reference tables restored and decided by the model/implementation "
                               "correspondence and the oracles of this run (case counts x3)")
        cov.update(self.extra)
        ev = {"property_id": self.pid, "tier": self.tier, "seed": self.seed, "level": "proof",
              "coverage": cov, "assumptions": self.assumptions, "wall_s": round(wall, 2), "violations": violations}
        os.makedirs(os.path.join(ROOT, "evidence"), exist_ok=True)
        with open(os.path.join(ROOT, "evidence", self.pid + ".json"), "w") as f:
            json.dump(ev, f, indent=1, default=str)
        out = sys.__stdout__
        for fb in self.fallbacks:
            print("TIE-FALLBACK property=%s %s: static extraction failed (%s); reference tables decided by correspondence"
                  % (self.pid, fb["tables"], fb["static_extraction_failed"][:160].replace("\n", " ")), file=out)
        for l in lines:
            print(l, file=out)
        print("%s %s seed=%d: obligations %d/%d, cases %d (%d distinct non-trivial), model/impl differences %d, oracle failures %d (%d known), %.1fs -> exit %d"
              % (self.pid, self.tier, self.seed, self.discharged, self.obligations, self.evaluations, len(self.keys),
                 len(self.disagreements), len(self.failures), len(self.failures) - len(new_failures), wall, exit_code), file=out)
        out.flush()
        return exit_code
