"""C14 - initial and thermal states are valid Boltzmann density matrices."""
import math
from qvh.core import *

DRIVER = "C14"
PROPS = "QV.Props.C14"
LADDER = [0.0, 1e-3, 0.01, 0.1, 1.0, 1.4, 2.0, 5.0, 10.0, 30.0, 77.0, 300.0, 1000.0]


def run(ck):
    import numpy
    qr = import_quantarhei()
    from quantarhei import Molecule, Aggregate, Mode, TimeAxis, CorrelationFunction, energy_units, eigenbasis_of, Hamiltonian
    from quantarhei.core.units import kB_intK
    rng = ck.rng
    ck.rule = ("aggregates of 2-4 molecules (site energies in random order, a 700 1/cm gap in some, with and without a bath temperature, with "
               "and without vibrational modes) x condition types thermal / thermal_excited_state (weak and strong coupling) / "
               "impulsive_excitation x the temperature ladder 0, 1e-3 ... 1000 K plus random temperatures and temperature=None, requested "
               "outside and inside eigenbasis_of: finiteness, Hermiticity, positivity, unit trace, Boltzmann ratios in log space in the "
               "defining basis, T=0 equals the T->0 limit, same physical state inside and outside a basis context; the exponents chosen by "
               "_thermal_population are compared with the Lean plan; non-trivial = temperature below 5 K or site 0 not lowest or a "
               "request inside a context")
    ck.trusted += ["harness/c14.py; numpy.exp and the normalisation are applied by the harness to the exponents returned by the Lean plan",
                   "hand model QV/Model/C14.lean validated on generated inputs"]
    ck.prove(PROPS, extra_modules=["QV.Drive.C14"], also=["QV.Props.C14Units"])
    ta = TimeAxis(0.0, 100, 1.0)
    lines, impl = [], []

    def make(n, energies, bathT, reorgs, modes=False):
        with energy_units("1/cm"):
            mols = []
            for k in range(n):
                m = Molecule([0.0, energies[k]])
                m.set_dipole(0, 1, [1.0, 0.5 * k, 0.0])
                if bathT is not None:
                    cf = CorrelationFunction(ta, dict(ftype="OverdampedBrownian", reorg=reorgs[k], cortime=60.0, T=bathT, matsubara=20))
                    m.set_transition_environment((0, 1), cf)
                if modes and k == 0:
                    md = Mode(frequency=200.0)
                    m.add_Mode(md)
                    md.set_nmax(0, 2); md.set_nmax(1, 2); md.set_HR(1, 0.3)
                mols.append(m)
            agg = Aggregate(mols)
            for i in range(n):
                for j in range(i + 1, n):
                    agg.set_resonance_coupling(i, j, rng.choice([0.0, 50.0, -120.0, 200.0]))
        agg.build()
        return agg

    def check_state(rho, what, inp, unit_trace=True):
        d = numpy.array(rho)
        if not numpy.all(numpy.isfinite(d)):
            ck.fail("nan:%s" % what, "state contains non-finite numbers", inp)
            return False
        if numpy.abs(d - d.conj().T).max() > 1e-12:
            ck.fail("herm:%s" % what, "state not Hermitian", inp)
        ev = numpy.linalg.eigvalsh((d + d.conj().T) / 2)
        if ev.min() < -1e-12 * max(1.0, abs(ev).max()):
            ck.fail("psd:%s" % what, "state not positive semidefinite", inp, float(ev.min()))
        if unit_trace and abs(numpy.trace(d) - 1.0) > 1e-12:
            ck.fail("trace:%s" % what, "thermal state does not have unit trace", inp, complex(numpy.trace(d)))
        return True

    def ratios(pops, ens, T, what, inp, direct=True):
        """populations vs the Boltzmann distribution: absolute 1e-12 always; when the matrix is handed out in its defining basis
        (`direct`, no basis transformation in between) also the ratios themselves in log space"""
        kT = kB_intK * T
        ens = numpy.asarray(ens, dtype=float)
        i0 = int(numpy.argmin(ens))
        x = -(ens - ens[i0]) / kT
        w = numpy.exp(x)
        want = w / w.sum()
        if numpy.abs(numpy.asarray(pops) - want).max() > 1e-12:
            i = int(numpy.argmax(numpy.abs(numpy.asarray(pops) - want)))
            ck.fail("ratio:%s" % what, "populations are not Boltzmann populations exp(-(E_a-E_min)/kT)/Z", dict(inp, state=i), float(pops[i]), float(want[i]))
            return
        if direct:
            for i in range(len(ens)):
                # the weak-coupling state passes through a basis transformation (rounding ~1e-16 of the largest element);
                # ratios are compared in log space where the populations are well above that level
                if want[i] < 1e-10:
                    continue
                if pops[i] <= 0 or abs(math.log(pops[i] / pops[i0]) - x[i]) > 1e-8 * max(1.0, abs(x[i])):
                    ck.fail("ratio:%s" % what, "populations are not in the ratio exp(-(E_a-E_b)/kT)", dict(inp, state=i),
                            float(pops[i] / pops[i0]) if pops[i0] else None, math.exp(x[i]))
                    return

    nsys = ck.n(5, 40)
    for s in range(nsys):
        n = rng.choice([2, 3, 3, 4])
        energies = [12000.0 + rng.randint(-300, 300) for _ in range(n)]
        if rng.random() < 0.5:
            energies[0] = max(energies) + 700.0        # first site far above another one
        bathT = rng.choice([None, 300.0, 77.0])
        reorgs = [rng.choice([20.0, 60.0, 120.0]) for _ in range(n)]
        if s % 3 == 1:
            # boundary: the reorganisation energies REORDER the sites (lowest bare energy is not the lowest relaxed energy),
            # incl. degenerate bare energies
            energies = [12000.0 + (0.0 if rng.random() < 0.3 else 12.0 * k) for k in range(n)]
            reorgs = [10.0 + 45.0 * k for k in range(n)]
            bathT = rng.choice([300.0, 77.0])
        modes = rng.random() < 0.25 and n <= 3
        if s in (0, 4):
            modes, bathT = False, (bathT or 300.0)     # the systems with a history of other calls (below) have a bath whatever the seed
        if s == 2:
            n, modes = 2, True            # every run has a system with a vibrational mode and a bath (all four requests)
            energies, reorgs = energies[:2], reorgs[:2]
            bathT = bathT or 300.0
        try:
            agg = make(n, energies, bathT, reorgs, modes)
        except Exception as e:
            ck.fail("raises:build", "build raised %r" % (e,), {"energies": energies})
            continue
        # a history: other results were obtained from the same aggregate before its initial states are asked for
        used_before = []
        if bathT is not None and not modes and s % 2 == 0:
            try:
                calls_ = [("get_RedfieldRateMatrix", lambda: agg.get_RedfieldRateMatrix()),
                          ("get_RelaxationTensor(standard_Redfield)", lambda: agg.get_RelaxationTensor(ta, relaxation_theory="standard_Redfield")),
                          ("get_RelaxationTensor(time_dependent, as_operators)",
                           lambda: agg.get_RelaxationTensor(ta, relaxation_theory="standard_Redfield", time_dependent=True, as_operators=True)),
                          ("get_RelaxationTensor(standard_Foerster)", lambda: agg.get_RelaxationTensor(ta, relaxation_theory="standard_Foerster")),
                          ("diagonalize", lambda: agg.diagonalize())]
                # one call only, or several with each of them last in turn (a later call must not be needed to clean up after an earlier one)
                k0 = (s // 2) % len(calls_) if s != 4 else len(calls_) - 1      # (every run: the rate matrix alone, and diagonalize() last)
                order_ = [calls_[k0]] if s % 4 == 0 else [c_ for i_, c_ in enumerate(calls_) if i_ != k0] + [calls_[k0]]
                for nm_, f_ in order_:
                    f_(); used_before.append(nm_)
            except Exception as e:
                ck.extra.setdefault("history_call_errors", []).append(repr(e)[:160])
        H = agg.get_Hamiltonian()
        Hs = numpy.array(H.data)
        ee, SS = numpy.linalg.eigh(Hs)
        Ntot = Hs.shape[0]
        start = int(agg.Nb[0])
        temps = list(LADDER) + [rng.choice([3.3, 17.0, 150.0])] + [None]
        if ck.quick:
            temps = [0.0, 1e-3, 1.0, 1.4, 5.0, 12.0, 20.0, 77.0, 300.0, None] if s % 2 == 0 else [0.0, 0.01, 0.1, 2.0, 10.0, 20.0, 1000.0, rng.choice([3.3, 150.0])]
        outside_state = {}
        outside_thermal = {}
        for T in temps:
            Teff = T if T is not None else (bathT if bathT is not None else 0.0)
            for cond, limit in (("thermal", "weak_coupling"), ("thermal_excited_state", "weak_coupling"),
                                ("thermal_excited_state", "strong_coupling"), ("impulsive_excitation", "weak_coupling")):
                if limit == "strong_coupling" and bathT is None:
                    continue
                for inside in (False, True):
                    inp = {"sites": n, "energies_cm": energies, "bath_T": bathT, "modes": modes, "condition": cond, "limit": limit,
                           "temperature": T, "inside_eigenbasis_of": inside, "obtained_from_the_aggregate_before": used_before}
                    try:
                        if inside:
                            with eigenbasis_of(H):
                                rho = agg.get_DensityMatrix(condition_type=cond, relaxation_theory_limit=limit, temperature=T)
                                d_in = numpy.array(rho.data).copy()
                            d_site = numpy.array(rho.data).copy()
                        else:
                            rho = agg.get_DensityMatrix(condition_type=cond, relaxation_theory_limit=limit, temperature=T)
                            d_site = numpy.array(rho.data).copy()
                            # the copy the aggregate keeps and hands out on a request without a condition is that state
                            kept = numpy.array(agg.get_DensityMatrix().data).copy()
                            if kept.shape != d_site.shape or numpy.abs(kept - d_site).max() > 1e-12:
                                ck.fail("kept-copy:%s:%s" % (cond, limit), "get_DensityMatrix() without a condition does not hand out the state "
                                        "calculated by the preceding request", inp,
                                        float(numpy.abs(kept - d_site).max()) if kept.shape == d_site.shape else "shape")
                            with eigenbasis_of(H):
                                d_in = numpy.array(rho.data).copy()
                    except Exception as e:
                        ck.fail("raises:%s:%s" % (cond, limit), "get_DensityMatrix raised %r" % (e,), inp)
                        continue
                    # a state whose defining basis is fixed by the request is the same physical state whether it is requested inside or
                    # outside a basis context (read here after the context was left, i.e. in the site representation in both cases)
                    if cond == "thermal" and not inside:
                        outside_thermal[T] = d_site.copy()
                    if cond == "thermal_excited_state":
                        if not inside:
                            outside_state[(cond, limit, T)] = d_site.copy()
                        elif (cond, limit, T) in outside_state:
                            dio = float(numpy.abs(d_site - outside_state[(cond, limit, T)]).max())
                            ck.resid("thermal excited state requested inside vs outside a basis context", dio)
                            if dio > 1e-9:
                                ck.fail("basis:%s:%s:inside-vs-outside" % (cond, limit), "the state requested inside eigenbasis_of(H) is not the same physical state as "
                                        "the one requested outside any context", inp, dio)
                    # a Hamiltonian handed in explicitly and equal to the aggregate's own gives the same state
                    if not inside and cond in ("thermal", "thermal_excited_state") and not (limit == "strong_coupling" and cond == "thermal_excited_state"):
                        try:
                            rho_h = agg.get_DensityMatrix(condition_type=cond, relaxation_theory_limit=limit, temperature=T,
                                                          relaxation_hamiltonian=agg.get_Hamiltonian())
                            dvh = float(numpy.abs(numpy.array(rho_h.data) - d_site).max())
                            if dvh > 1e-12:
                                ck.fail("supplied-hamiltonian:%s:%s" % (cond, limit), "the state for relaxation_hamiltonian = the aggregate's own "
                                        "Hamiltonian differs from the state without it", inp, dvh)
                        except Exception as e:
                            ck.fail("raises:supplied-hamiltonian:%s:%s" % (cond, limit), "get_DensityMatrix(relaxation_hamiltonian=...) raised %r" % (e,), inp)
                    # strong coupling: a supplied Hamiltonian is taken as already void of the reorganisation energies, so the
                    # aggregate's Hamiltonian with the relaxed site energies on its diagonal gives the builder's own state
                    if not inside and cond == "thermal_excited_state" and limit == "strong_coupling":
                        try:
                            n1_ = int(agg.Nb[1])
                            with energy_units("int"):
                                lam_ = numpy.array([agg.sbi.get_reorganization_energy(int(agg.elinds[start + i]) - 1) for i in range(n1_)])
                            Hr = Hs.copy()
                            for i_ in range(n1_):
                                Hr[start + i_, start + i_] -= lam_[i_]
                            with energy_units("int"):
                                hr_obj = Hamiltonian(data=Hr)
                            rho_r = agg.get_DensityMatrix(condition_type=cond, relaxation_theory_limit=limit, temperature=T,
                                                          relaxation_hamiltonian=hr_obj)
                            dvr = float(numpy.abs(numpy.array(rho_r.data) - d_site).max())
                            if dvr > 1e-12:
                                ck.fail("supplied-hamiltonian:relaxed:%s:%s" % (cond, limit), "the state for a supplied Hamiltonian that carries the "
                                        "relaxed site energies differs from the builder's own strong-coupling state", inp, dvr)
                        except Exception as e:
                            ck.fail("raises:supplied-hamiltonian:relaxed:%s:%s" % (cond, limit), "get_DensityMatrix(relaxation_hamiltonian=...) raised %r" % (e,), inp)
                    what = "%s:%s" % (cond, limit)
                    ck.case((s, T, cond, limit, inside), nontrivial=(Teff < 5 or energies[0] > min(energies) or inside), condition=cond,
                            limit=limit, lowT=bool(Teff < 5), inside=inside, sample=inp if (s == 0 and T == 1.0 and cond != "thermal" and inside) else None)
                    if not check_state(d_site, what, inp, unit_trace=(cond != "impulsive_excitation")):
                        continue
                    # ---- Boltzmann ratios in the defining basis ------------------------------------------------
                    if cond == "thermal_excited_state" and limit == "strong_coupling":
                        # defined in the site basis with relaxed site energies; meaningful when requested outside a context
                        if not inside:
                            pops = numpy.real(numpy.diag(d_site))[start:]
                            # one state per site without modes; with modes every vibronic state of the band carries the
                            # reorganisation energy of the site it belongs to
                            n1 = int(agg.Nb[1])
                            with energy_units("int"):
                                lam = numpy.array([agg.sbi.get_reorganization_energy(int(agg.elinds[start + i]) - 1) for i in range(n1)])
                            ens = numpy.real(numpy.diag(Hs))[start:start + n1] - lam
                            if Teff == 0.0:
                                if abs(pops[int(numpy.argmin(ens))] - 1.0) > 1e-12:
                                    ck.fail("zeroT:%s" % what, "at T = 0 the population is not on the lowest relaxed site", inp, pops.tolist())
                            else:
                                ratios(pops[:n1], ens, Teff, what, inp)
                            lines.append("plan %s %s %d %d %s %s" % (frac(Teff), frac(kB_intK * Teff), start, Ntot,
                                                                     " ".join(frac(x) for x in numpy.real(numpy.diag(Hs))),
                                                                     " ".join(frac(x) for x in list(lam) + [0.0] * (Ntot - start - n1))))
                            impl.append(numpy.real(numpy.diag(d_site)))
                    elif cond in ("thermal", "thermal_excited_state"):
                        # defined by the populations of the Hamiltonian's eigenstates (weak coupling) /
                        # of the basis in which the Hamiltonian is presented at the time of the request (thermal)
                        if cond == "thermal" and not inside:
                            pops = numpy.real(numpy.diag(d_site)); ens = numpy.real(numpy.diag(Hs)); basis = "site"
                        else:
                            pops = numpy.real(numpy.diag(d_in)); ens = ee; basis = "exciton"
                            # same physical state inside and outside: what is handed out must be diagonal in the exciton basis
                            off = numpy.abs(d_in - numpy.diag(numpy.diag(d_in))).max()
                            if off > 1e-9:
                                ck.fail("basis:%s:%s" % (what, "inside" if inside else "outside"),
                                        "state defined by exciton populations is not the same physical state when requested %s a basis context "
                                        "(not diagonal in the exciton basis)" % ("inside" if inside else "outside"), inp, float(off))
                                continue
                        lo = 0 if cond == "thermal" else start
                        if Teff == 0.0:
                            if abs(pops[lo + int(numpy.argmin(ens[lo:]))] - 1.0) > 1e-9:
                                ck.fail("zeroT:%s" % what, "at T = 0 the population is not on the lowest state", inp, pops.tolist())
                        else:
                            ratios(pops[lo:], ens[lo:], Teff, what + ":" + basis, inp, direct=(inside or (cond == "thermal" and not inside)))
                        if lo > 0 and numpy.abs(pops[:lo]).max() > 0:
                            ck.fail("ground:%s" % what, "excited-state equilibrium has ground-state population", inp)
        # ---- the same states requested while an energy-units context is open (the temperature is in Kelvin whatever the energy units) -------
        for uctx in ("1/cm", "eV"):
            todo = [(("thermal", "weak_coupling", T_), d_) for T_, d_ in outside_thermal.items()] + list(outside_state.items())
            for (cond_, limit_, T_), d_out in todo:
                if T_ is None or not (T_ >= 77.0):
                    continue
                inpu = {"sites": n, "energies_cm": energies, "condition": cond_, "limit": limit_, "temperature": T_, "requested_inside": "energy_units(%r)" % uctx}
                ck.case((s, T_, cond_, limit_, uctx), nontrivial=True, condition=cond_, limit=limit_, lowT=False, inside=False)
                try:
                    with energy_units(uctx):
                        d_u = numpy.array(agg.get_DensityMatrix(condition_type=cond_, relaxation_theory_limit=limit_, temperature=T_).data).copy()
                    dvu = float(numpy.abs(d_u - d_out).max())
                    ck.resid("state requested inside a units context vs outside", dvu)
                    if dvu > 1e-9:
                        ck.fail("units:%s:%s" % (cond_, limit_), "the state requested inside energy_units(%r) is not the Boltzmann state of the requested temperature "
                                "(it differs from the one requested outside the context)" % uctx, inpu, dvu)
                except Exception as e:
                    ck.fail("raises:units:%s:%s" % (cond_, limit_), "request inside a units context raised %r" % (e,), inpu)
        # ---- the same states requested inside the basis context of some OTHER operator, real symmetric and complex Hermitian --------------
        from quantarhei.qm.hilbertspace.operators import SelfAdjointOperator as _SAO
        for okind in ("real symmetric", "complex Hermitian"):
            Ntot_ = int(H.dim)
            am_ = numpy.array([[rng.randint(-4, 4) / 4.0 + (1j * rng.randint(-4, 4) / 4.0 if okind.startswith("complex") else 0.0) for _ in range(Ntot_)] for _ in range(Ntot_)])
            am_ = (am_ + am_.conj().T) / 2.0 + numpy.diag(numpy.arange(Ntot_) * 0.5)
            for (cond_, limit_, T_), d_out in list(outside_state.items()):
                if T_ is None or not (T_ >= 77.0) or T_ != max(t_ for (_c, _l, t_) in outside_state if t_ is not None):
                    continue
                inpo = {"sites": n, "energies_cm": energies, "condition": cond_, "limit": limit_, "temperature": T_,
                        "requested_inside_eigenbasis_of": "another operator (%s)" % okind}
                ck.case((s, T_, cond_, limit_, okind), nontrivial=True, condition=cond_, limit=limit_, lowT=False, inside=True)
                try:
                    Ao_ = _SAO(data=am_.copy())
                    with eigenbasis_of(Ao_):
                        rho_o = agg.get_DensityMatrix(condition_type=cond_, relaxation_theory_limit=limit_, temperature=T_)
                    d_o = numpy.array(rho_o.data).copy()
                    if check_state(d_o, "%s:%s:other-context" % (cond_, limit_), inpo):
                        dvo = float(numpy.abs(d_o - d_out).max())
                        if dvo > 1e-9:
                            ck.fail("basis:%s:%s:other-context" % (cond_, limit_), "the state requested inside the basis context of another operator (%s) is not the same "
                                    "physical state as the one requested outside any context" % okind, inpo, dvo)
                    dh_ = float(numpy.abs(numpy.array(agg.get_Hamiltonian()._data) - Hs).max())
                    if dh_ > 1e-9 * max(1.0, float(numpy.abs(Hs).max())):
                        ck.fail("basis:hamiltonian-after-context:%s" % okind.split()[0], "the aggregate's Hamiltonian is not back in its site representation after the request", inpo, dh_)
                except Exception as e:
                    ck.fail("raises:%s:%s:other-context" % (cond_, limit_), "request inside the context of another operator raised %r" % (e,), inpo)
    # ---- the equilibrium state of the open-system interface (temperature of the bath), shifted ground-state energies --------
    ta_b = TimeAxis(0.0, 100, 1.0)
    for E0 in (0.0, 500.0, 10000.0, -200.0):
        for Tb in ((300.0, 77.0, 5.0, 2.0) if not ck.quick else (300.0, 5.0)):
            inp = {"interface": "get_thermal_ReducedDensityMatrix / get_excited_density_matrix", "ground_state_energy_cm": E0, "bath_T": Tb}
            try:
                with energy_units("1/cm"):
                    cfb = CorrelationFunction(ta_b, dict(ftype="OverdampedBrownian", reorg=20.0, cortime=100.0, T=Tb, matsubara=20))
                    msb = [Molecule([E0, E0 + 12000.0 + rng.randint(-100, 100)]), Molecule([0.0, 12200.0 + rng.randint(-100, 100)])]
                    for m_ in msb:
                        m_.set_transition_environment((0, 1), cfb)
                        m_.set_dipole(0, 1, [1.0, 0.5, 0.0])
                    aggb = Aggregate(msb)
                    aggb.set_resonance_coupling(0, 1, 80.0)
                aggb.build()
                Hb = aggb.get_Hamiltonian()
                rb = aggb.get_thermal_ReducedDensityMatrix()
                with eigenbasis_of(Hb):
                    d_eb = numpy.array(rb.data).copy()
                    ens_b = numpy.real(numpy.diag(numpy.array(Hb.data))).copy()
                d_sb = numpy.array(rb.data).copy()
                re_ = aggb.get_excited_density_matrix(condition="delta")
                d_ex = numpy.array(re_.data).copy()
            except Exception as e:
                ck.fail("raises:opensystem-thermal", "the open-system equilibrium / excited state raised %r" % (e,), inp)
                continue
            ck.case(("os-thermal", E0, Tb), nontrivial=(E0 != 0.0 or Tb < 10), condition="opensystem-thermal", limit="-", lowT=bool(Tb < 10), inside=False)
            if check_state(d_sb, "opensystem-thermal", inp):
                off = numpy.abs(d_eb - numpy.diag(numpy.diag(d_eb))).max()
                if off > 1e-9:
                    ck.fail("basis:opensystem-thermal", "equilibrium state is not diagonal in the eigenbasis of the Hamiltonian", inp, float(off))
                else:
                    ratios(numpy.real(numpy.diag(d_eb)), ens_b, Tb, "opensystem-thermal", inp, direct=True)
                    # the same plan as the aggregate's algorithm: exponents relative to the lowest eigenvalue, nothing subtracted
                    lines.append("plan %s %s %d %d %s %s" % (frac(Tb), frac(kB_intK * Tb), 0, len(ens_b), " ".join(frac(x) for x in ens_b),
                                                             " ".join(frac(0.0) for _ in ens_b)))
                    impl.append(numpy.real(numpy.diag(d_eb)))
            check_state(d_ex, "opensystem-excited", inp, unit_trace=False)
            # excitation by a pulse with a given spectrum: D rho D with the dipole operator weighted by the pulse spectrum
            try:
                from quantarhei import FrequencyAxis, DFunction
                with energy_units("1/cm"):
                    wax = FrequencyAxis(11000.0, 300, 10.0)
                    spec = DFunction(wax, numpy.exp(-((numpy.array(wax.data) - 12100.0) / 250.0) ** 2))
                rp = aggb.get_excited_density_matrix(condition=("pulse_spectrum", spec))
                d_ps = numpy.array(rp.data).copy()
                with eigenbasis_of(Hb):
                    d_ps_e = numpy.array(rp.data).copy()
                with energy_units("1/cm"):
                    d_thu = numpy.array(aggb.get_thermal_ReducedDensityMatrix().data).copy()
                dthu = float(numpy.abs(d_thu - numpy.array(aggb.get_thermal_ReducedDensityMatrix().data)).max())
                if dthu > 1e-9:
                    ck.fail("units:opensystem-thermal", "get_thermal_ReducedDensityMatrix() inside energy_units('1/cm') differs from the state outside the context", inp, dthu)
                if check_state(d_ps, "opensystem-excited-pulse", inp, unit_trace=False):
                    # same physical state in both presentations: spectrum (eigenvalues) is basis independent
                    e1 = numpy.sort(numpy.linalg.eigvalsh((d_ps + d_ps.conj().T) / 2)); e2 = numpy.sort(numpy.linalg.eigvalsh((d_ps_e + d_ps_e.conj().T) / 2))
                    if numpy.abs(e1 - e2).max() > 1e-9 * max(1e-300, numpy.abs(e1).max()):
                        ck.fail("basis:opensystem-excited-pulse", "pulse-excited state is not the same physical state inside and outside the eigenbasis", inp)
                    if float(numpy.real(numpy.trace(d_ps))) <= 0.0:
                        ck.fail("trace:opensystem-excited-pulse", "pulse resonant with the transitions excites nothing", inp, float(numpy.real(numpy.trace(d_ps))))
            except Exception as e:
                ck.fail("raises:opensystem-excited-pulse", "get_excited_density_matrix(('pulse_spectrum', spectrum)) raised %r" % (e,), inp)
    # ---- the bath of a built aggregate replaced (set_SystemBathInteraction): the site equilibrium follows the bath the aggregate has now -----
    from quantarhei.qm import SystemBathInteraction, Operator
    from quantarhei.qm.corfunctions import CorrelationFunctionMatrix
    from quantarhei import convert
    for hb_ in range(ck.n(2, 8)):
        en_b = [12000.0, 12050.0 + 10.0 * hb_, 12100.0]
        lam1, lam2 = [30.0, 30.0, 30.0], [20.0, 160.0 + 10.0 * hb_, 40.0]
        Tq = (300.0, 77.0, 0.0, 150.0)[hb_ % 4]
        inpb = {"sites": 3, "energies_cm": en_b, "reorganisation_energies_first_bath_cm": lam1, "after set_SystemBathInteraction_cm": lam2, "T": Tq,
                "history": "strong-coupling state; bath replaced; strong-coupling state"}
        try:
            with energy_units("1/cm"):
                mb_ = []
                for k_ in range(3):
                    mm_ = Molecule([0.0, en_b[k_]])
                    mm_.set_transition_environment((0, 1), CorrelationFunction(ta, dict(ftype="OverdampedBrownian", reorg=lam1[k_], cortime=100.0, T=300.0)))
                    mb_.append(mm_)
                ab_ = Aggregate(mb_)
                ab_.set_resonance_coupling(0, 1, 100.0); ab_.set_resonance_coupling(1, 2, -60.0)
            ab_.build()
            ab_.get_DensityMatrix(condition_type="thermal_excited_state", relaxation_theory_limit="strong_coupling", temperature=Tq)
            Nb_ = ab_.get_Hamiltonian().dim
            opsb, cfb = [], CorrelationFunctionMatrix(ta, 3)
            with energy_units("1/cm"):
                for k_ in range(3):
                    ob_ = Operator(dim=Nb_, real=True); ob_.data[k_ + 1, k_ + 1] = 1.0
                    opsb.append(ob_)
                    cfb.set_correlation_function(CorrelationFunction(ta, dict(ftype="OverdampedBrownian", reorg=lam2[k_], cortime=100.0, T=300.0)), [(k_, k_)])
            ab_.set_SystemBathInteraction(SystemBathInteraction(opsb, cfb, system=ab_))
            r2_ = numpy.array(ab_.get_DensityMatrix(condition_type="thermal_excited_state", relaxation_theory_limit="strong_coupling", temperature=Tq).data)
            ck.case(("bath-replaced", hb_), nontrivial=True, condition="thermal_excited_state", limit="strong_coupling", lowT=bool(Tq == 0.0), inside=False)
            if check_state(r2_, "thermal_excited_state:strong_coupling:bath-replaced", inpb):
                ens_ = numpy.array([float(convert(en_b[k_] - lam2[k_], "1/cm", "int")) for k_ in range(3)])
                pops_ = numpy.real(numpy.diag(r2_))[1:4]
                if Tq == 0.0:
                    if abs(pops_[int(numpy.argmin(ens_))] - 1.0) > 1e-12:
                        ck.fail("zeroT:thermal_excited_state:strong_coupling:bath-replaced", "at T = 0 the population is not on the lowest relaxed site of the "
                                "bath the aggregate has now", inpb, pops_.tolist())
                else:
                    w_ = numpy.exp(-(ens_ - ens_.min()) / (kB_intK * Tq)); w_ = w_ / w_.sum()
                    if numpy.abs(pops_ - w_).max() > 1e-9:
                        ck.fail("ratio:thermal_excited_state:strong_coupling:bath-replaced", "after the bath was replaced the site populations are not the Boltzmann "
                                "populations of the site energies minus the reorganisation energies of the present bath", inpb, pops_.tolist(), w_.tolist())
        except Exception as e:
            ck.fail("raises:bath-replaced", "strong-coupling state after set_SystemBathInteraction raised %r" % (e,), inpb)
    # ---- single molecules with several excited levels and a vibrational mode: equilibrium at the temperature of whatever bath the molecule
    # still has (also after one of its baths was removed), the 0 K state when it has none, the same physical state in any basis context ----
    from quantarhei.qm.hilbertspace.operators import SelfAdjointOperator
    for hm_ in range(ck.n(3, 10)):
        Tb = (300.0, 77.0, 150.0)[hm_ % 3]
        try:
            with energy_units("1/cm"):
                cfm = [CorrelationFunction(ta_b, dict(ftype="OverdampedBrownian", reorg=30.0 + 20.0 * k_, cortime=100.0 - 30.0 * k_, T=Tb)) for k_ in range(2)]
                mol = Molecule([0.0, 600.0 + rng.randint(-50, 50), 1100.0 + rng.randint(-50, 50)])       # thermally accessible levels
                mdm = Mode(frequency=200.0)
                mol.add_Mode(mdm)
                for st_ in range(3):
                    mdm.set_nmax(st_, 2)
                mdm.set_HR(1, 0.3); mdm.set_HR(2, 0.2)
            histories = [("no bath at all", [], 0.0),
                         ("baths on 0->1 and 0->2", [("set", 1, 0), ("set", 2, 1)], Tb),
                         ("bath of 0->2 removed again", [("unset", 2)], Tb),
                         ("bath of 0->2 put back", [("set", 2, 1)], Tb)]
            for hname, acts, Texp in histories:
                for a_ in acts:
                    if a_[0] == "set":
                        mol.set_transition_environment((0, a_[1]), cfm[a_[2]])
                    else:
                        mol.unset_transition_environment((0, a_[1]))
                Hm_ = mol.get_Hamiltonian()
                eem, SSm = numpy.linalg.eigh(numpy.array(Hm_._data))
                inpm = {"molecule": "three electronic levels, one mode", "history": hname, "bath_T": Tb}
                Oc = SelfAdjointOperator(data=numpy.array(Hm_._data) + 0.05 * (numpy.ones(Hm_._data.shape) - numpy.eye(Hm_.dim)))
                for where in ("outside", "inside eigenbasis_of(another operator)"):
                    if where == "outside":
                        rm_ = mol.get_thermal_ReducedDensityMatrix()
                    else:
                        with eigenbasis_of(Oc):
                            rm_ = mol.get_thermal_ReducedDensityMatrix()
                    dm_ = numpy.array(rm_.data)
                    ck.case(("molecule-thermal", hm_, hname, where), nontrivial=True, condition="molecule-thermal", limit="-", lowT=bool(Texp == 0.0), inside=(where != "outside"))
                    if not check_state(dm_, "molecule-thermal", dict(inpm, requested=where)):
                        continue
                    de_ = SSm.T @ dm_ @ SSm
                    if numpy.abs(de_ - numpy.diag(numpy.diag(de_))).max() > 1e-9:
                        ck.fail("basis:molecule-thermal", "equilibrium state of a molecule is not diagonal in the eigenbasis of its Hamiltonian", dict(inpm, requested=where),
                                float(numpy.abs(de_ - numpy.diag(numpy.diag(de_))).max()))
                        continue
                    pm_ = numpy.real(numpy.diag(de_))
                    if Texp == 0.0:
                        if abs(pm_[int(numpy.argmin(eem))] - 1.0) > 1e-9:
                            ck.fail("zeroT:molecule-thermal", "a molecule without any bath is not in the lowest eigenstate of its Hamiltonian", dict(inpm, requested=where), pm_.tolist())
                    else:
                        ratios(pm_, eem, Texp, "molecule-thermal", dict(inpm, requested=where), direct=False)
        except Exception as e:
            ck.fail("raises:molecule-thermal", "thermal state of a molecule raised %r" % (e,), {"bath_T": Tb})
    model = ck.drive(DRIVER, lines)
    if model is not None:
        for l, diag, b in zip(lines, impl, model):
            ck.traces += 1
            head, ex = b.split(" ; ") if " ; " in b else (b, "")
            z, st = [int(x) for x in head.split()]
            want = numpy.zeros(len(diag))
            if z == 1:
                want[st] = 1.0
            else:
                xs = numpy.array([float(Fraction(x)) for x in ex.split()])
                w = numpy.exp(xs)
                want[st:st + len(w)] = w / w.sum()
            if numpy.abs(want - diag).max() > 1e-12:
                ck.disagree("populations differ from exp(plan)/sum", l[:160], diag.tolist(), want.tolist())
    return ck.finish()
