import Mathlib.Analysis.SpecialFunctions.ImproperIntegrals

/-!
# C09 — the declared reorganisation energy of the analytic (overdamped Brownian) forms is the one
carried by the data: `−Im C(t) = (λ/τ) e^{−t/τ}` for both `OverdampedBrownian` and
`OverdampedBrownian-HighTemperature` (`_make_overdamped_brownian*`), and `∫₀^∞ (λ/τ) e^{−t/τ} dt = λ`.
That the spline quadrature of `measure_reorganization_energy` on a finite axis reproduces the
integral is measured by the harness (the code's own tolerance 1e-3), not proved.
-/
namespace QV.C09
open MeasureTheory

theorem reorg_closed_form (lam tau : ℝ) (ht : 0 < tau) :
    ∫ t in Set.Ioi (0 : ℝ), (lam / tau) * Real.exp (-(1 / tau) * t) = lam := by
  have ha : -(1 / tau) < 0 := by
    have : 0 < 1 / tau := one_div_pos.mpr ht
    linarith
  rw [integral_const_mul, integral_exp_mul_Ioi ha 0]
  simp
  field_simp

/-- on a finite window `[0, T]` the recovered value misses `λ e^{−T/τ}`: the relative error of the
recovery is `e^{−T/τ}` (below 1e-3 once `T ≥ 7τ`) -/
theorem reorg_window (lam tau T : ℝ) (ht : 0 < tau) :
    ∫ t in Set.Ioi T, (lam / tau) * Real.exp (-(1 / tau) * t) = lam * Real.exp (-(1 / tau) * T) := by
  have ha : -(1 / tau) < 0 := by
    have : 0 < 1 / tau := one_div_pos.mpr ht
    linarith
  rw [integral_const_mul, integral_exp_mul_Ioi ha T]
  field_simp

end QV.C09
