/-!
Import-free finite-dimensional algebra used by the executable models:
sums over `Fin n`, vectors/matrices/4-index tensors as functions, and
*tabulation* into `Vector`s (`VecD`, `MatD`, `TensD`).
-/
namespace QV

/-- `∑ i : Fin n, f i` as a left fold (bridge lemma `sumFin_eq_sum` on the Mathlib side) -/
def sumFin {α : Type} [Add α] [Zero α] (n : Nat) (f : Fin n → α) : α :=
  Fin.foldl n (fun acc i => acc + f i) 0

/-! Materialised values.  Iterated models keep their state in `Vector`s (strict
data), never in closures, so that running them costs polynomial time; `fn`
reads a materialised value back as a function and `fn_tab` says tabulation is
the identity. -/

abbrev VecD (α : Type) (n : Nat) := Vector α n
abbrev MatD (α : Type) (n m : Nat) := Vector (Vector α m) n
abbrev TensD (α : Type) (n : Nat) := Vector (Vector (Vector (Vector α n) n) n) n

def VecD.tab {α : Type} {n : Nat} (f : Fin n → α) : VecD α n := Vector.ofFn f
def VecD.fn {α : Type} {n : Nat} (v : VecD α n) : Fin n → α := fun i => v[i]
theorem VecD.fn_tab {α : Type} {n : Nat} (f : Fin n → α) : (VecD.tab f).fn = f := by
  funext i; simp [VecD.tab, VecD.fn]

def MatD.tab {α : Type} {n m : Nat} (f : Fin n → Fin m → α) : MatD α n m :=
  Vector.ofFn (fun i => Vector.ofFn (f i))
def MatD.fn {α : Type} {n m : Nat} (a : MatD α n m) : Fin n → Fin m → α := fun i j => a[i][j]
theorem MatD.fn_tab {α : Type} {n m : Nat} (f : Fin n → Fin m → α) : (MatD.tab f).fn = f := by
  funext i j; simp [MatD.tab, MatD.fn]

def TensD.tab {α : Type} {n : Nat} (f : Fin n → Fin n → Fin n → Fin n → α) : TensD α n :=
  Vector.ofFn (fun i => Vector.ofFn (fun j => Vector.ofFn (fun k => Vector.ofFn (f i j k))))
def TensD.fn {α : Type} {n : Nat} (a : TensD α n) : Fin n → Fin n → Fin n → Fin n → α :=
  fun i j k l => a[i][j][k][l]
theorem TensD.fn_tab {α : Type} {n : Nat} (f : Fin n → Fin n → Fin n → Fin n → α) :
    (TensD.tab f).fn = f := by
  funext i j k l; simp [TensD.tab, TensD.fn]

section
variable {α : Type} [Add α] [Mul α] [Zero α]

/-- matrix times vector -/
def matVec {n m : Nat} (A : Fin n → Fin m → α) (x : Fin m → α) : Fin n → α :=
  fun i => sumFin m (fun j => A i j * x j)

/-- matrix product -/
def matMul {n m k : Nat} (A : Fin n → Fin m → α) (B : Fin m → Fin k → α) : Fin n → Fin k → α :=
  fun i j => sumFin m (fun l => A i l * B l j)

/-- action of a 4-index tensor on a matrix: `(R ρ)_{ab} = Σ_{cd} R_{abcd} ρ_{cd}` -/
def tensApply {n : Nat} (R : Fin n → Fin n → Fin n → Fin n → α) (ρ : Fin n → Fin n → α) :
    Fin n → Fin n → α :=
  fun a b => sumFin n (fun c => sumFin n (fun d => R a b c d * ρ c d))

def trace {n : Nat} (A : Fin n → Fin n → α) : α := sumFin n (fun i => A i i)
end

/-- read a row-major list as a matrix (driver side) -/
def matOfArray {α : Type} [Inhabited α] (n m : Nat) (a : Array α) : Fin n → Fin m → α :=
  fun i j => a[i.val * m + j.val]!

def vecOfArray {α : Type} [Inhabited α] (n : Nat) (a : Array α) : Fin n → α :=
  fun i => a[i.val]!

def tensOfArray {α : Type} [Inhabited α] (n : Nat) (a : Array α) : Fin n → Fin n → Fin n → Fin n → α :=
  fun i j k l => a[((i.val * n + j.val) * n + k.val) * n + l.val]!

def listOfVec {α : Type} {n : Nat} (f : Fin n → α) : List α := (List.finRange n).map f

def listOfMat {α : Type} {n m : Nat} (f : Fin n → Fin m → α) : List α :=
  (List.finRange n).flatMap (fun i => (List.finRange m).map (f i))

def listOfTens {α : Type} {n : Nat} (f : Fin n → Fin n → Fin n → Fin n → α) : List α :=
  (List.finRange n).flatMap fun i => (List.finRange n).flatMap fun j =>
    (List.finRange n).flatMap fun k => (List.finRange n).map (f i j k)

end QV

namespace QV
/-- exact inverse of a rational matrix by Gauss–Jordan elimination (driver side only; `none` if singular) -/
def ratInv (n : Nat) (a : Array (Array Rat)) : Option (Array (Array Rat)) := Id.run do
  let mut m : Array (Array Rat) := Array.ofFn (n := n) fun i =>
    (a[i.val]!) ++ (Array.ofFn (n := n) fun j => if i.val = j.val then (1 : Rat) else 0)
  for c in [0:n] do
    -- pivot
    let mut p := c
    for r in [c:n] do
      if (m[p]!)[c]! == 0 ∧ (m[r]!)[c]! != 0 then p := r
    if (m[p]!)[c]! == 0 then return none
    let rowp := m[p]!
    let rowc := m[c]!
    m := (m.set! p rowc).set! c rowp
    let piv := (m[c]!)[c]!
    m := m.set! c ((m[c]!).map (· / piv))
    for r in [0:n] do
      if r != c then
        let f := (m[r]!)[c]!
        if f != 0 then
          let rc := m[c]!
          m := m.set! r (Array.ofFn (n := 2 * n) fun j => (m[r]!)[j.val]! - f * rc[j.val]!)
  return some (m.map (fun row => row.extract n (2 * n)))
end QV
