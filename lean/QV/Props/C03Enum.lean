import QV.Props.C03
import Mathlib.Data.List.Nodup
import Mathlib.Data.List.Basic

/-!
# C03 — the generated list of electronic states is complete and free of duplicates
For two-level molecules (`omax = [1,…,1]`): band `k` of `elsignatures` holds every 0/1 signature of length `N`
with `k` excitations exactly once, for every `N` and `k`.
-/
namespace QV.C03

/-- what every generated item `(signature, index of the excitation added last)` satisfies -/
def ItemInv (N k : Nat) (p : List Nat × Nat) : Prop :=
  Sound N k p.1 ∧ (∀ j, p.2 < j → p.1[j]?.getD 0 = 0) ∧ (0 < k → p.1[p.2]?.getD 0 = 1) ∧ (k = 0 → p.2 = 0)

theorem replicate_get_one (N i : Nat) (h : i < N) : (List.replicate N 1)[i]?.getD 0 = 1 := by
  simp [List.getElem?_replicate, h]

theorem mem_addExcitation (N : Nat) (ins : List (List Nat × Nat)) (r : List Nat × Nat) :
    r ∈ addExcitation (List.replicate N 1) ins ↔
      ∃ p ∈ ins, ∃ i, i < p.1.length ∧ p.2 ≤ i ∧ p.1[i]?.getD 0 < (List.replicate N 1)[i]?.getD 0 ∧ r = (inc p.1 i, i) := by
  simp only [addExcitation, List.mem_flatMap, List.mem_map, List.mem_filter, List.mem_range, decide_eq_true_eq]
  constructor
  · rintro ⟨p, hp, i, ⟨hi, h1, h2⟩, rfl⟩
    exact ⟨p, hp, i, hi, h1, h2, rfl⟩
  · rintro ⟨p, hp, i, hi, h1, h2, rfl⟩
    exact ⟨p, hp, i, ⟨hi, h1, h2⟩, rfl⟩

theorem bandItems_inv (N : Nat) : ∀ k, ∀ p ∈ bandItems (List.replicate N 1) k, ItemInv N k p := by
  intro k
  induction k with
  | zero =>
    intro p hp
    have hs := bandItems_sound N 0 p hp
    simp only [bandItems, List.length_replicate, List.mem_singleton] at hp
    subst hp
    refine ⟨hs, fun j _ => ?_, fun h => absurd h (lt_irrefl 0), fun _ => rfl⟩
    simp only [List.getElem?_replicate]
    split_ifs <;> rfl
  | succ k ih =>
    intro r hr
    have hs := bandItems_sound N (k + 1) r hr
    simp only [bandItems] at hr
    obtain ⟨p, hp, i, hi, hle, hlt, rfl⟩ := (mem_addExcitation N _ r).mp hr
    obtain ⟨⟨hlen, _, _⟩, hz, _, _⟩ := ih p hp
    have hiN : i < N := hlen ▸ hi
    rw [replicate_get_one N i hiN] at hlt
    refine ⟨hs, fun j hj => ?_, fun _ => ?_, fun h => absurd h (Nat.succ_ne_zero k)⟩
    · show (inc p.1 i)[j]?.getD 0 = 0
      rw [inc_getElem?, if_neg (by omega)]
      exact hz j (by omega)
    · show (inc p.1 i)[i]?.getD 0 = 1
      rw [inc_getElem?, if_pos rfl]
      have h0 : p.1[i]?.getD 0 = 0 := by omega
      have hsome : p.1[i]? = some p.1[i] := List.getElem?_eq_getElem hi
      rw [hsome] at h0 ⊢
      simp at h0 ⊢
      omega

/-- the signature determines the item -/
theorem item_of_sig (N k : Nat) (p q : List Nat × Nat) (hp : ItemInv N k p) (hq : ItemInv N k q) (h : p.1 = q.1) : p = q := by
  have h2 : p.2 = q.2 := by
    by_cases hk : k = 0
    · rw [hp.2.2.2 hk, hq.2.2.2 hk]
    · have hk' : 0 < k := Nat.pos_of_ne_zero hk
      have a := hp.2.2.1 hk'
      have b := hq.2.2.1 hk'
      by_contra hne
      rcases Nat.lt_or_gt_of_ne hne with hlt | hgt
      · have := hp.2.1 q.2 hlt
        rw [h] at this
        omega
      · have := hq.2.1 p.2 hgt
        rw [← h] at this
        omega
  exact Prod.ext h h2

theorem inc_inj (a b : List Nat) (i : Nat) (hl : a.length = b.length) (h : inc a i = inc b i) : a = b := by
  apply List.ext_getElem?
  intro j
  have := congrArg (fun l => l[j]?) h
  simp only [inc_getElem?] at this
  by_cases hj : j = i
  · subst hj
    simp only [if_true] at this
    cases ha : a[j]? with
    | none =>
      cases hb : b[j]? with
      | none => rfl
      | some v => rw [ha, hb] at this; simp at this
    | some u =>
      cases hb : b[j]? with
      | none => rw [ha, hb] at this; simp at this
      | some v => rw [ha, hb] at this; simp at this; rw [this]
  · simpa [hj] using this

/-- **no electronic state is generated twice** (items, hence signatures, of a band are pairwise different) -/
theorem bandItems_nodup (N : Nat) : ∀ k, (bandItems (List.replicate N 1) k).Nodup := by
  intro k
  induction k with
  | zero => simp [bandItems]
  | succ k ih =>
    simp only [bandItems, addExcitation]
    rw [List.nodup_flatMap]
    refine ⟨fun p _ => ?_, ?_⟩
    · apply List.Nodup.map
      · intro i j hij
        exact (Prod.ext_iff.mp hij).2
      · exact (List.nodup_range).filter _
    · refine ih.imp_of_mem ?_
      intro p q hp hq hne
      intro r hr1 hr2
      simp only [List.mem_map, List.mem_filter, List.mem_range] at hr1 hr2
      obtain ⟨i, _, rfl⟩ := hr1
      obtain ⟨j, _, hj⟩ := hr2
      have e := Prod.ext_iff.mp hj
      simp only at e
      have hij : j = i := e.2
      subst hij
      have ip := bandItems_inv N k p hp
      have iq := bandItems_inv N k q hq
      have : q.1 = p.1 := inc_inj q.1 p.1 j (by rw [iq.1.1, ip.1.1]) e.1
      exact hne (item_of_sig N k p q ip iq this.symm)

theorem bandSigs_nodup (N k : Nat) : (bandSigs (List.replicate N 1) k).Nodup := by
  unfold bandSigs
  refine List.Nodup.map_on ?_ (bandItems_nodup N k)
  intro p hp q hq h
  exact item_of_sig N k p q (bandItems_inv N k p hp) (bandItems_inv N k q hq) h

/-! ## completeness -/

theorem sum_zero_get (l : List Nat) (h : l.sum = 0) (j : Nat) : l[j]?.getD 0 = 0 := by
  induction l generalizing j with
  | nil => simp
  | cons x xs ih =>
    simp only [List.sum_cons] at h
    cases j with
    | zero => simp; omega
    | succ j => simpa using ih (by omega) j

theorem exists_last_one (l : List Nat) (h1 : ∀ i : Nat, l[i]?.getD 0 ≤ 1) (hs : 1 ≤ l.sum) :
    ∃ m : Nat, l[m]?.getD 0 = 1 ∧ ∀ j : Nat, m < j → l[j]?.getD 0 = 0 := by
  induction l with
  | nil => simp at hs
  | cons x xs ih =>
    by_cases hx : 1 ≤ xs.sum
    · obtain ⟨m, hm, hz⟩ := ih (fun i => by simpa using h1 (i + 1)) hx
      refine ⟨m + 1, by simpa using hm, fun j hj => ?_⟩
      cases j with
      | zero => omega
      | succ j => simpa using hz j (by omega)
    · have hx0 : xs.sum = 0 := by omega
      have hx1 : x = 1 := by
        have := h1 0
        simp only [List.sum_cons] at hs
        simp at this
        omega
      refine ⟨0, by simp [hx1], fun j hj => ?_⟩
      cases j with
      | zero => omega
      | succ j => simpa using sum_zero_get xs hx0 j

theorem inc_set_zero (l : List Nat) (m : Nat) (h : l[m]?.getD 0 = 1) : inc (l.set m 0) m = l := by
  apply List.ext_getElem?
  intro j
  rw [inc_getElem?]
  by_cases hj : j = m
  · subst hj
    simp only [if_true]
    have hlt : j < l.length := by
      by_contra hge
      rw [List.getElem?_eq_none (by omega)] at h
      simp at h
    rw [List.getElem?_set_self hlt]
    have : l[j]? = some l[j] := List.getElem?_eq_getElem hlt
    rw [this] at h ⊢
    simp at h ⊢
    omega
  · rw [if_neg hj, List.getElem?_set_ne (Ne.symm hj)]

/-- **every 0/1 signature with `k` excitations is generated** -/
theorem bandSigs_complete (N : Nat) : ∀ k σ, Sound N k σ → σ ∈ bandSigs (List.replicate N 1) k := by
  intro k
  induction k with
  | zero =>
    intro σ ⟨hl, hs, _⟩
    have : σ = List.replicate N 0 := by
      apply List.ext_getElem?
      intro j
      rw [List.getElem?_replicate]
      by_cases hj : j < N
      · rw [if_pos hj]
        have h0 := sum_zero_get σ hs j
        have : σ[j]? = some σ[j] := List.getElem?_eq_getElem (by omega)
        rw [this] at h0 ⊢
        simp at h0
        rw [h0]
      · rw [if_neg hj, List.getElem?_eq_none (by omega)]
    subst this
    simp [bandSigs, bandItems]
  | succ k ih =>
    intro σ ⟨hl, hs, h1⟩
    obtain ⟨m, hm, hz⟩ := exists_last_one σ h1 (by omega)
    have hmN : m < N := by
      by_contra hge
      rw [List.getElem?_eq_none (by omega)] at hm
      simp at hm
    have hinc := inc_set_zero σ m hm
    have hs' : (σ.set m 0).sum = k := by
      have := inc_sum (σ.set m 0) m (by simp; omega)
      rw [hinc, hs] at this
      omega
    have hsound : Sound N k (σ.set m 0) := by
      refine ⟨by simp [hl], hs', fun i => ?_⟩
      by_cases hi : i = m
      · subst hi
        rw [List.getElem?_set_self (by omega)]
        simp
      · rw [List.getElem?_set_ne (Ne.symm hi)]
        exact h1 i
    have hmem := ih (σ.set m 0) hsound
    simp only [bandSigs, List.mem_map] at hmem ⊢
    obtain ⟨p, hp, hp1⟩ := hmem
    have ip := bandItems_inv N k p hp
    have hzero : ∀ j, m ≤ j → p.1[j]?.getD 0 = 0 := by
      intro j hj
      rw [hp1]
      by_cases hjm : j = m
      · subst hjm
        rw [List.getElem?_set_self (by omega)]
        rfl
      · rw [List.getElem?_set_ne (Ne.symm hjm)]
        exact hz j (by omega)
    have hle : p.2 ≤ m := by
      by_cases hk : k = 0
      · rw [ip.2.2.2 hk]; exact Nat.zero_le _
      · have := ip.2.2.1 (Nat.pos_of_ne_zero hk)
        by_contra hgt
        have := hzero p.2 (by omega)
        omega
    refine ⟨(inc p.1 m, m), ?_, by simp [hp1, hinc]⟩
    simp only [bandItems]
    refine (mem_addExcitation N _ _).mpr ⟨p, hp, m, by rw [hp1]; simp; omega, hle, ?_, rfl⟩
    rw [replicate_get_one N m hmN, hzero m (le_refl m)]
    exact Nat.one_pos

/-- **the list of electronic states** of `N` two-level molecules up to `mult` excitations **holds every 0/1
signature with at most `mult` excitations, each exactly once** -/
theorem elsigs_complete_nodup (N mult : Nat) :
    (elsigs (List.replicate N 1) mult).Nodup ∧
    ∀ σ : List Nat, σ ∈ elsigs (List.replicate N 1) mult ↔ (σ.length = N ∧ σ.sum ≤ mult ∧ ∀ i : Nat, σ[i]?.getD 0 ≤ 1) := by
  constructor
  · unfold elsigs
    rw [List.nodup_flatMap]
    refine ⟨fun k _ => bandSigs_nodup N k, ?_⟩
    refine (List.nodup_range).imp_of_mem ?_
    intro a b _ _ hab σ ha hb
    simp only [bandSigs, List.mem_map] at ha hb
    obtain ⟨p, hp, rfl⟩ := ha
    obtain ⟨q, hq, hq1⟩ := hb
    have s1 := (bandItems_sound N a p hp).2.1
    have s2 := (bandItems_sound N b q hq).2.1
    rw [hq1] at s2
    exact hab (s1.symm.trans s2)
  · intro σ
    constructor
    · intro h
      have := elsigs_sound N mult σ h
      exact ⟨this.1, this.2.1, this.2.2⟩
    · rintro ⟨hl, hs, h1⟩
      simp only [elsigs, List.mem_flatMap, List.mem_range]
      exact ⟨σ.sum, by omega, bandSigs_complete N σ.sum σ ⟨hl, rfl, h1⟩⟩

end QV.C03
