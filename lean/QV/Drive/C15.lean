import QV.Core.Num
import QV.Model.C15
open QV QV.C15

def showOptNat : Option Nat → String
  | none => "-"
  | some n => toString n
def showOptBool : Option Bool → String
  | none => "-"
  | some b => if b then "1" else "0"
def b01 (b : Bool) : String := if b then "1" else "0"

def report (h : Hidden) (r : Reads) : String :=
  s!"nref={h.nref} ado={b01 h.adoDirty} rem={b01 h.remainder} prot={b01 h.prot} depth={h.depth} reads_nref={showOptNat r.nref} reads_ado={showOptBool r.adoDirty} reads_rem={showOptBool r.remainder}"

def step' (h : Hidden) (ts : List String) : Hidden × String :=
  let doit (c : Call) : Hidden × String := let (h', r) := exec h c; (h', report h' r)
  match ts with
  | ["reset"] => (clean, "ok")
  | ["setref", k] => match k.toNat? with
    | some k => doit (.setRef k)
    | none => (h, "bad-op")
  | ["propagate", k] => match k.toNat? with
    | some k => doit (.propagate k)
    | none => (h, "bad-op")
  | ["heom"] => doit .heom
  | ["tensor", b] => match b.toNat? with
    | some b => if b < QV.Gen.C15.branches.length then doit (.tensor b) else (h, "bad-op")
    | none => (h, "bad-op")
  | ["pure", t] => match t.toNat? with
    | some t => doit (.pure t)
    | none => (h, "bad-op")
  | _ => (h, "bad-op")

def main : IO Unit := runDriver step' clean
