import QV.Core.Tab
/-!
Model of `Aggregate._thermal_population` and of the dispatch in
`Aggregate.get_DensityMatrix` (quantarhei/builders/aggregate_base.py): which
energies enter, what is subtracted, where the populated block starts, and the
`T = 0` branch.  `exp` is external: the model returns the exponents; the
populations are `ef x_i / Σ_j ef x_j`.
-/
namespace QV.C14

structure Plan (K : Type) where
  zeroT : Bool          -- `temp == 0.0`: all population on one state
  start : Nat           -- first state of the populated block
  exps : List K         -- arguments of `exp`, one per state of the block
  deriving Repr

section
variable {K : Type} [Sub K] [Neg K] [Div K] [Zero K] [LT K] [DecidableRel (α := K) (· < ·)] [DecidableEq K]

def listMin : List K → K
  | [] => 0
  | x :: xs => xs.foldl (fun m y => if y < m then y else m) x

/-- index of the first minimal element -/
def argMin (l : List K) : Nat := (l.idxOf? (listMin l)).getD 0

/-- `_thermal_population(temp, subtract, relaxation_hamiltonian, start)` -/
def thermalPlan (temp kBT : K) (diagH subtract : List K) (start : Nat) : Plan K :=
  let ens := (diagH.drop start).zipWith (· - ·) subtract
  if temp = 0 then { zeroT := true, start := start + argMin ens, exps := [] }
  else
    let emin := listMin ens
    { zeroT := false, start := start, exps := ens.map fun e => -(e - emin) / kBT }
end

section
variable {K : Type} [Add K] [Div K] [Zero K] [One K]
/-- populations of the block from the values of `exp` at the exponents -/
def populations (ef : K → K) (p : Plan K) : List K :=
  if p.zeroT then [1]
  else
    let w := p.exps.map ef
    w.map (· / w.sum)
end

end QV.C14
