/-
  Import-free numerics and line-protocol helpers shared by all model drivers.
  Exact rationals are core Lean's `Rat`; `GRat` is the Gaussian rationals
  (exact complex numbers with rational parts).
-/
namespace QV

def tokens (line : String) : List String :=
  (line.splitOn " ").filter (fun t => t ≠ "" ∧ t ≠ "\n" ∧ t ≠ "\r") |>.map
    (fun t => (t.replace "\n" "").replace "\r" "")

def parseRat? (s : String) : Option Rat :=
  match s.splitOn "/" with
  | [p] => p.toInt?.map (fun n => (n : Rat))
  | [p, q] => do
      let n ← p.toInt?
      let d ← q.toNat?
      if d = 0 then none else some (mkRat n d)
  | _ => none

def showRat (r : Rat) : String :=
  if r.den = 1 then toString r.num else s!"{r.num}/{r.den}"

def parseInts? (ts : List String) : Option (List Int) := ts.mapM String.toInt?
def parseNats? (ts : List String) : Option (List Nat) := ts.mapM String.toNat?
def parseRats? (ts : List String) : Option (List Rat) := ts.mapM parseRat?

/-- Gaussian rationals. -/
structure GRat where
  re : Rat
  im : Rat
  deriving DecidableEq, Repr

namespace GRat
instance : Add GRat := ⟨fun a b => ⟨a.re + b.re, a.im + b.im⟩⟩
instance : Sub GRat := ⟨fun a b => ⟨a.re - b.re, a.im - b.im⟩⟩
instance : Neg GRat := ⟨fun a => ⟨-a.re, -a.im⟩⟩
instance : Mul GRat := ⟨fun a b => ⟨a.re * b.re - a.im * b.im, a.re * b.im + a.im * b.re⟩⟩
instance : OfNat GRat 0 := ⟨⟨0, 0⟩⟩
instance : OfNat GRat 1 := ⟨⟨1, 0⟩⟩
instance : NatCast GRat := ⟨fun n => ⟨(n : Rat), 0⟩⟩
instance : Inhabited GRat := ⟨⟨0, 0⟩⟩
instance : Zero GRat := ⟨⟨0, 0⟩⟩
instance : Div GRat := ⟨fun a b =>
  let d := b.re * b.re + b.im * b.im
  ⟨(a.re * b.re + a.im * b.im) / d, (a.im * b.re - a.re * b.im) / d⟩⟩
def conj (a : GRat) : GRat := ⟨a.re, -a.im⟩
def ofRat (r : Rat) : GRat := ⟨r, 0⟩
def I : GRat := ⟨0, 1⟩
def smul (r : Rat) (a : GRat) : GRat := ⟨r * a.re, r * a.im⟩
def parse? (s : String) : Option GRat :=
  match s.splitOn "," with
  | [a] => do let x ← parseRat? a; some ⟨x, 0⟩
  | [a, b] => do let x ← parseRat? a; let y ← parseRat? b; some ⟨x, y⟩
  | _ => none
def show_ (a : GRat) : String := s!"{showRat a.re},{showRat a.im}"
end GRat

def parseGRats? (ts : List String) : Option (List GRat) := ts.mapM GRat.parse?

/-- Generic line loop: `step` maps a state and the tokens of one line to a new
state and exactly one output line. -/
partial def lineLoop {σ : Type} (h : IO.FS.Stream) (out : IO.FS.Stream)
    (step : σ → List String → σ × String) (s : σ) : IO Unit := do
  let line ← h.getLine
  if line.isEmpty then
    out.flush
    return ()
  let (s', o) := step s (tokens line)
  out.putStrLn o
  lineLoop h out step s'

def runDriver {σ : Type} (step : σ → List String → σ × String) (s : σ) : IO Unit := do
  lineLoop (← IO.getStdin) (← IO.getStdout) step s

/-- Row-major list to function lookup with a default (used only by drivers). -/
def listGet {α : Type} [Inhabited α] (l : Array α) (i : Nat) : α := l[i]!

end QV
