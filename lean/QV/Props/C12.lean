import QV.Model.C12
import QV.Props.C19
import Mathlib.Data.Matrix.Basic
import Mathlib.Data.Rat.Defs
import Mathlib.Algebra.BigOperators.Fin
import Mathlib.Algebra.BigOperators.Group.List.Basic
import Mathlib.Tactic.Ring
import Mathlib.Tactic.LinearCombination
import Mathlib.Tactic.FinCases
import Mathlib.Tactic.NormNum

/-!
# C12 — third-order response: orientational prefactor, rotation, scaling, total = rephasing + non-rephasing
Algebra of the prefactor model `QV.C12` (the average itself is in `QV.Props.C12Average`).
-/
namespace QV.C12
open QV QV.Gen.C12

/-! ## the extracted matrix `M4` is the inverse of the Gram matrix of the three isotropic tensors -/

/-- the three isotropic rank-4 tensors `δδ`, in the pairing order of the source: positions (0,1,2,3) of the
tensor hold the vectors number (3,2,1,0) -/
def iso (α : Fin 3) (i j k l : Fin 3) : ℚ :=
  match α with
  | 0 => if i = j ∧ k = l then 1 else 0
  | 1 => if i = k ∧ j = l then 1 else 0
  | 2 => if i = l ∧ j = k then 1 else 0

/-- Gram matrix `G_{αβ} = Σ_{ijkl} I^α_{ijkl} I^β_{ijkl}` -/
def gram (α β : Fin 3) : ℚ := ∑ i, ∑ j, ∑ k, ∑ l, iso α i j k l * iso β i j k l

def m4 (α β : Fin 3) : ℚ := (m4Rat.getD α.val []).getD β.val 0

theorem gram_values : ∀ α β, gram α β = if α = β then 9 else 3 := by decide +kernel

/-- **`M4 · G = 1`**: the matrix of the source is exactly the inverse Gram matrix of the isotropic tensors -/
theorem m4_is_gram_inverse : ∀ α γ, ∑ β, m4 α β * gram β γ = if α = γ then 1 else 0 := by decide +kernel

/-- the pairings the source uses for fields and for dipoles are the same three, in the same order, and
they are the contractions with the three isotropic tensors -/
theorem pairings_agree : f4ePairs = f4nPairs ∧ f4ePairs = [((3, 2), (1, 0)), ((3, 1), (2, 0)), ((3, 0), (2, 1))] := by decide

section algebra
variable {K : Type} [CommRing K]

/-- `δ` as a number -/
def isoK (α : Fin 3) (i j k l : Fin 3) : K := if iso α i j k l = 1 then 1 else 0

theorem f4_eq_contraction (v : Nat → Fin 3 → K) (α : Fin 3) :
    (f4 f4nPairs v).getD α.val 0 = ∑ i, ∑ j, ∑ k, ∑ l, isoK α i j k l * (v 3 i * v 2 j * v 1 k * v 0 l) := by
  fin_cases α <;> simp [f4, f4nPairs, dot3, iso, isoK, Fin.sum_univ_three] <;> ring

/-- orthogonal matrices keep scalar products -/
def applyM (Q : Fin 3 → Fin 3 → K) (v : Fin 3 → K) : Fin 3 → K := fun i => Q i 0 * v 0 + Q i 1 * v 1 + Q i 2 * v 2

def Orthogonal (Q : Fin 3 → Fin 3 → K) : Prop :=
  ∀ a b, Q 0 a * Q 0 b + Q 1 a * Q 1 b + Q 2 a * Q 2 b = if a = b then 1 else 0

theorem dot3_rotate (Q : Fin 3 → Fin 3 → K) (hQ : Orthogonal Q) (u v : Fin 3 → K) :
    dot3 (applyM Q u) (applyM Q v) = dot3 u v := by
  unfold dot3 applyM
  have h00 := hQ 0 0; have h01 := hQ 0 1; have h02 := hQ 0 2
  have h10 := hQ 1 0; have h11 := hQ 1 1; have h12 := hQ 1 2
  have h20 := hQ 2 0; have h21 := hQ 2 1; have h22 := hQ 2 2
  simp only [Fin.isValue, if_true, Fin.reduceEq, if_false] at h00 h01 h02 h10 h11 h12 h20 h21 h22
  linear_combination (u 0 * v 0) * h00 + (u 0 * v 1) * h01 + (u 0 * v 2) * h02 + (u 1 * v 0) * h10 + (u 1 * v 1) * h11
    + (u 1 * v 2) * h12 + (u 2 * v 0) * h20 + (u 2 * v 1) * h21 + (u 2 * v 2) * h22

/-- **a common rotation (or reflection) of all four vectors changes none of the three pairings** -/
theorem f4_rotate (pairs : List ((Nat × Nat) × (Nat × Nat))) (Q : Fin 3 → Fin 3 → K) (hQ : Orthogonal Q) (v : Nat → Fin 3 → K) :
    f4 pairs (fun n => applyM Q (v n)) = f4 pairs v := by
  unfold f4
  refine List.map_congr_left (fun p _ => ?_)
  rw [dot3_rotate Q hQ, dot3_rotate Q hQ]

theorem dot3_scale (s : K) (u v : Fin 3 → K) : dot3 (fun i => s * u i) (fun i => s * v i) = s ^ 2 * dot3 u v := by
  unfold dot3; ring

/-- a common factor on all four vectors appears to the fourth power -/
theorem f4_scale (pairs : List ((Nat × Nat) × (Nat × Nat))) (s : K) (v : Nat → Fin 3 → K) :
    f4 pairs (fun n i => s * v n i) = (f4 pairs v).map (fun x => s ^ 4 * x) := by
  unfold f4
  rw [List.map_map]
  refine List.map_congr_left (fun p _ => ?_)
  simp only [Function.comp, dot3_scale]
  ring

theorem dotList_scale_right (s : K) : ∀ (x y : List K), dotList x (y.map (fun t => s * t)) = s * dotList x y := by
  intro x
  induction x with
  | nil => intro y; cases y <;> simp [dotList]
  | cons a xs ih =>
    intro y
    cases y with
    | nil => simp [dotList]
    | cons b ys => simp only [dotList, List.map_cons, ih]; ring

/-- **the prefactor does not change under a common rotation of all dipoles** -/
theorem pref_rotate_dipoles (m : List (List K)) (sign rho0 ev : K) (e d : Nat → Fin 3 → K) (Q : Fin 3 → Fin 3 → K)
    (hQ : Orthogonal Q) : pref m sign rho0 ev e (fun n => applyM Q (d n)) = pref m sign rho0 ev e d := by
  unfold pref; rw [f4_rotate _ Q hQ]

/-- **... nor under a common rotation of all field polarisations** -/
theorem pref_rotate_fields (m : List (List K)) (sign rho0 ev : K) (e d : Nat → Fin 3 → K) (Q : Fin 3 → Fin 3 → K)
    (hQ : Orthogonal Q) : pref m sign rho0 ev (fun n => applyM Q (e n)) d = pref m sign rho0 ev e d := by
  unfold pref; rw [f4_rotate _ Q hQ]

/-- **... and scales with the fourth power of a common dipole factor** -/
theorem pref_scale_dipoles (m : List (List K)) (sign rho0 ev s : K) (e d : Nat → Fin 3 → K) :
    pref m sign rho0 ev e (fun n i => s * d n i) = s ^ 4 * pref m sign rho0 ev e d := by
  unfold pref; rw [f4_scale, dotList_scale_right]; ring

end algebra

/-! ## total signal = rephasing + non-rephasing (+ double coherence, which the calculator never fills) -/
section signals
open QV.Gen.C19
variable {V : Type} [AddCommMonoid V]

/-- whatever is stored per pathway type, the sum over all types is the sum over the signals of the sums over
their types (tables of `twod2.py`, C19) -/
theorem total_eq_sum_of_signals (d : String → V) :
    (ptypes.map d).sum = ((signals.flatMap (·.2)).map d).sum :=
  ((QV.C19.signals_partition_types.map d).sum_eq).symm

end signals
end QV.C12
