import QV.Core.Num
import QV.Model.C14
open QV QV.C14

instance : DecidableRel (α := Rat) (· < ·) := fun a b => inferInstanceAs (Decidable (a < b))

/-- `plan temp kBT start n  diagH(n) subtract(n-start)` -/
def stepD (_ : Unit) (ts : List String) : Unit × String :=
  match ts with
  | "plan" :: t :: k :: st :: n :: rest =>
    match parseRat? t, parseRat? k, st.toNat?, n.toNat?, parseRats? rest with
    | some t, some k, some st, some n, some vals =>
      if vals.length = n + (n - st) then
        let p := thermalPlan t k (vals.take n) (vals.drop n) st
        ((), s!"{if p.zeroT then 1 else 0} {p.start} ; " ++ " ".intercalate (p.exps.map showRat))
      else ((), "bad-op")
    | _, _, _, _, _ => ((), "bad-op")
  | _ => ((), "bad-op")

def main : IO Unit := runDriver stepD ()
