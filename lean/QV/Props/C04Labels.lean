import QV.Props.C04

/-!
# C04 — the basis labels follow the stack, protected objects included
`Props/C04.lean` proves restoration of the *values* for programs without protection.  This file adds `protect_basis` /
`unprotect_basis` to the programs and proves the part of the property that is about the bookkeeping alone: at every
reachable state every managed object - protected or not - carries the label of a basis that is on the stack, is
registered with the context whose label it carries, and is registered with no context above its label.  When all contexts
have been left every object carries the outermost label and is registered nowhere.  No assumption on the
transformations (they need not even be invertible): this is pure bookkeeping.
-/
namespace QV.C04

variable {T R : Type} (A : Alg T R)

/-- programs with protection -/
inductive OpP (T R : Type) where
  | base (op : Op T R)
  | protect (id : Nat)
  | unprotect (id : Nat)

def stepP (s : BState T R) : OpP T R → BState T R
  | .base op => step A s op
  | .protect i => setProt s i true
  | .unprotect i => setProt s i false

def runP (s : BState T R) (ops : List (OpP T R)) : BState T R := ops.foldl (stepP A) s

/-- bookkeeping invariant of one object at stack depth `d` -/
structure LabelInv (d : Nat) (o : Obj R) : Prop where
  le : o.basis ≤ d
  reg : o.basis ≠ 0 → o.basis ∈ o.regs
  regs : ∀ l ∈ o.regs, 1 ≤ l ∧ l ≤ o.basis

def StateLabelInv (s : BState T R) : Prop := ∀ id o, getObj s id = some o → LabelInv s.levels.length o

variable {A}

theorem lookup_filter_neA {β : Type} (l : List (Nat × β)) (id id' : Nat) (h : id' ≠ id) :
    (l.filter (fun p => p.1 != id)).lookup id' = l.lookup id' := by
  induction l with
  | nil => rfl
  | cons p ps ih =>
    obtain ⟨k, v⟩ := p
    by_cases hk : k = id
    · subst hk
      have : (id' == k) = false := by simp [h]
      simp [List.filter, List.lookup, this, ih]
    · have hk' : (k != id) = true := by simp [hk]
      simp only [List.filter, hk', List.lookup]
      split <;> simp_all

theorem getObj_setObjA (s : BState T R) (id id' : Nat) (o : Obj R) :
    getObj (setObj s id o) id' = if id' = id then some o else getObj s id' := by
  unfold getObj setObj
  by_cases h : id' = id
  · subst h; simp [List.lookup]
  · have : (id' == id) = false := by simp [h]
    simp [List.lookup, this, h, lookup_filter_neA _ _ _ h]

theorem setObj_levels (s : BState T R) (id : Nat) (o : Obj R) : (setObj s id o).levels = s.levels := rfl

theorem toCurrent_label (s : BState T R) (o : Obj R) (h : LabelInv s.levels.length o) :
    LabelInv s.levels.length (toCurrent A s o) := by
  unfold toCurrent
  by_cases hp : o.prot = true
  · simp [hp]; exact h
  · simp only [hp, Bool.false_eq_true, if_false]
    by_cases hb : o.basis = depth s
    · simp [hb]; exact h
    · simp only [hb, if_false]
      have hlt : o.basis < depth s := lt_of_le_of_ne h.le hb
      refine ⟨le_refl _, fun _ => ?_, ?_⟩
      · show depth s ∈ (if depth s ∈ o.regs then o.regs else depth s :: o.regs)
        split_ifs with hm
        · exact hm
        · simp
      · intro l hl
        have hl' : l ∈ (if depth s ∈ o.regs then o.regs else depth s :: o.regs) := hl
        show 1 ≤ l ∧ l ≤ depth s
        split_ifs at hl' with hm
        · have := h.regs l hl'; exact ⟨this.1, by omega⟩
        · rcases List.mem_cons.mp hl' with e | e
          · subst e; exact ⟨by omega, le_refl _⟩
          · have := h.regs l e; exact ⟨this.1, by omega⟩

theorem setObj_label (s : BState T R) (h : StateLabelInv s) (i : Nat) (o : Obj R) (ho : LabelInv s.levels.length o) :
    StateLabelInv (setObj s i o) := by
  intro id o' hg
  rw [getObj_setObjA] at hg
  rw [setObj_levels]
  split_ifs at hg with e
  · injection hg with hg; subst hg; exact ho
  · exact h id o' hg

theorem read_label (s : BState T R) (h : StateLabelInv s) (i : Nat) :
    StateLabelInv (read A s i).1 ∧ (read A s i).1.levels = s.levels := by
  unfold read
  cases ho : getObj s i with
  | none => exact ⟨h, rfl⟩
  | some o => exact ⟨setObj_label s h i _ (toCurrent_label s o (h i o ho)), rfl⟩

theorem exitObj_label (S : T) (n : Nat) (o : Obj R) (h : LabelInv (n + 1) o) : LabelInv n (exitObj A S (n + 1) o) := by
  unfold exitObj
  by_cases hm : n + 1 ∈ o.regs
  · simp only [hm, if_true]
    have hb : o.basis = n + 1 := by have := (h.regs _ hm).2; have := h.le; omega
    refine ⟨by simp, ?_, ?_⟩
    · intro hne
      have hne' : n ≠ 0 := by simpa using hne
      show n + 1 - 1 ∈ _
      simp only [Nat.add_sub_cancel]
      split_ifs with hc
      · rcases hc with hc | hc
        · exact absurd hc hne'
        · exact hc
      · simp
    · intro l hl
      simp only [Nat.add_sub_cancel] at hl ⊢
      have key : ∀ l ∈ o.regs.filter (· != n + 1), 1 ≤ l ∧ l ≤ n := by
        intro l hl
        rw [List.mem_filter] at hl
        have := h.regs l hl.1
        have hne : l ≠ n + 1 := by simpa using hl.2
        exact ⟨this.1, by omega⟩
      split_ifs at hl with hc
      · exact key l hl
      · rcases List.mem_cons.mp hl with e | e
        · subst e
          have : l ≠ 0 := fun e0 => hc (Or.inl e0)
          exact ⟨by omega, le_refl _⟩
        · exact key l e
  · simp only [hm, if_false]
    have hb : o.basis ≠ n + 1 := fun e => hm (e ▸ h.reg (by omega))
    exact ⟨by have := h.le; omega, h.reg, h.regs⟩

theorem stepP_label (s : BState T R) (h : StateLabelInv s) (op : OpP T R) : StateLabelInv (stepP A s op) := by
  cases op with
  | protect i =>
    show StateLabelInv (setProt s i true)
    unfold setProt
    cases ho : getObj s i with
    | none => exact h
    | some o => exact setObj_label s h i _ ⟨(h i o ho).le, (h i o ho).reg, (h i o ho).regs⟩
  | unprotect i =>
    show StateLabelInv (setProt s i false)
    unfold setProt
    cases ho : getObj s i with
    | none => exact h
    | some o => exact setObj_label s h i _ ⟨(h i o ho).le, (h i o ho).reg, (h i o ho).regs⟩
  | base op =>
    cases op with
    | read i => exact (read_label s h i).1
    | enter i S =>
      obtain ⟨r1, r2⟩ := read_label (A := A) s h i
      intro id o hg
      have hg' : getObj (read A s i).1 id = some o := hg
      have := r1 id o hg'
      show LabelInv (S :: (read A s i).1.levels).length o
      exact ⟨by have := this.le; simp only [List.length_cons]; omega, this.reg, this.regs⟩
    | exit =>
      show StateLabelInv (exit A s)
      unfold exit
      cases hl : s.levels with
      | nil => simpa [hl] using h
      | cons S rest =>
        intro id o hg
        have hg' : (s.objs.map (fun p => (p.1, exitObj A S (rest.length + 1) p.2))).lookup id = some o := by
          simpa [getObj, hl] using hg
        rw [lookup_map_snd] at hg'
        cases ho : s.objs.lookup id with
        | none => simp [ho] at hg'
        | some o0 =>
          simp only [ho, Option.map_some, Option.some.injEq] at hg'
          have h0 := h id o0 ho
          rw [hl] at h0
          subst hg'
          exact exitObj_label S rest.length o0 h0
    | create i r =>
      show StateLabelInv (create s i r)
      unfold create
      refine setObj_label s h i _ ⟨le_refl _, ?_, ?_⟩
      · intro hne
        have : depth s ≠ 0 := hne
        simp [this]
      · intro l hl
        by_cases hd : depth s = 0
        · simp [hd] at hl
        · simp only [hd, if_false, List.mem_singleton] at hl
          subst hl
          exact ⟨by show 1 ≤ depth s; omega, le_refl _⟩
    | write i r =>
      show StateLabelInv (write A s i r)
      unfold write
      cases ho : getObj s i with
      | none => exact h
      | some o =>
        have := toCurrent_label (A := A) s o (h i o ho)
        exact setObj_label s h i _ ⟨this.le, this.reg, this.regs⟩

/-- **the labels follow the stack**: after any program with contexts (left normally or through an exception), creation,
reads, writes, protection and unprotection, every object carries the label of a basis on the stack -/
theorem labels_on_stack (ops : List (OpP T R)) (s : BState T R) (h : StateLabelInv s) : StateLabelInv (runP A s ops) := by
  induction ops generalizing s with
  | nil => exact h
  | cons op rest ih => exact ih (stepP A s op) (stepP_label s h op)

/-- **bookkeeping restored**: whenever all contexts have been left, every object - protected or not - carries the
outermost label and is registered with no context -/
theorem labels_restored (ops : List (OpP T R)) (hd : (runP A (empty : BState T R) ops).levels = []) :
    ∀ id o, getObj (runP A (empty : BState T R) ops) id = some o → o.basis = 0 ∧ o.regs = [] := by
  have h := labels_on_stack (A := A) ops (empty : BState T R) (by intro id o hg; simp [getObj, empty] at hg)
  intro id o hg
  have := h id o hg
  rw [hd] at this
  have hb : o.basis = 0 := by have := this.le; simpa using this
  refine ⟨hb, ?_⟩
  cases hr : o.regs with
  | nil => rfl
  | cons l ls =>
    have := this.regs l (by rw [hr]; simp)
    omega

/-- the statement is not vacuous: a program that protects an object inside a context and leaves the context -/
def demoProg : List (OpP Nat Nat) :=
  [.base (.create 0 5), .base (.enter 0 1), .base (.create 1 7), .protect 1, .base .exit]
def demoAlg : Alg Nat Nat := ⟨(· + ·), id, 0, fun _ r => r⟩

example : (runP demoAlg (empty : BState Nat Nat) demoProg).levels = [] ∧
    (getObj (runP demoAlg (empty : BState Nat Nat) demoProg) 1).map (fun o => (o.prot, o.basis, o.regs)) = some (true, 0, []) := by
  decide

end QV.C04
