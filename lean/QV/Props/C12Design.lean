import QV.Props.C12Average
import Mathlib.Tactic.LinearCombination
import Mathlib.Tactic.Ring
import Mathlib.Data.Fintype.Pi
import Mathlib.Data.Fintype.Prod
import Mathlib.Data.Rat.Cast.Order
import Mathlib.Data.Rat.BigOperators
import Mathlib.Tactic.NormNum
import Mathlib.Tactic.FinCases

/-!
# C12 — an averaging functional with the assumed properties exists (explicit finite design)
`RotationAverage` (linear, normalised, supported on orthogonal matrices, invariant on products of four matrix elements
under the three rotations) is inhabited by an explicit functional: with `O` the 24 rotations of the cube and `Q₁` the half
turn about (1,1,1),

    avg f = 13/40 · mean_{P ∈ O} f(P) + 27/40 · mean_{P,P' ∈ O} f(P Q₁ P')

(a rational weighted 4-design of SO(3): the weights are fixed by the one condition that the cubic anisotropy cancels).
So `orientational_average` is not vacuous, and by that theorem every functional with those properties gives the same
value - in particular the Haar average, whose existence is therefore not needed.
-/
namespace QV.C12
open Finset

abbrev Mq := Fin 3 → Fin 3 → ℚ
def mulMq (A B : Mq) : Mq := fun i j => A i 0 * B 0 j + A i 1 * B 1 j + A i 2 * B 2 j
def trMq (Q : Mq) : Mq := fun i j => Q j i
def castM (A : Mq) : M3 := fun i j => (A i j : ℝ)

theorem castM_mul (A B : Mq) : castM (mulMq A B) = mulM (castM A) (castM B) := by
  funext i j
  simp [castM, mulMq, mulM, Fin.sum_univ_three]

def permTab : Fin 6 → Fin 3 → Fin 3 := ![![0,1,2],![0,2,1],![1,0,2],![1,2,0],![2,0,1],![2,1,0]]
def sgnTab : Fin 6 → ℚ := ![1,-1,-1,1,1,-1]
def baseSign : Fin 4 → Fin 3 → ℚ := ![![1,1,1],![1,-1,-1],![-1,1,-1],![-1,-1,1]]
abbrev Idx := Fin 6 × Fin 4
/-- the 24 rotations of the cube: signed permutation matrices of determinant one -/
def Pq (n : Idx) : Mq := fun i p => if p = permTab n.1 i then baseSign n.2 i * sgnTab n.1 else 0
def allIdx : List Idx := (List.finRange 6).flatMap fun s => (List.finRange 4).map fun e => (s, e)
def findIdx (M : Mq) : Idx := (allIdx.find? (fun n => decide (Pq n = M))).getD (0, 0)
def Qzq : Mq := ![![0,-1,0],![1,0,0],![0,0,1]]
def Qxq : Mq := ![![1,0,0],![0,0,-1],![0,1,0]]
def lTab (Q : Mq) (n : Idx) : Idx := findIdx (mulMq Q (Pq n))
def rTab (Q : Mq) (n : Idx) : Idx := findIdx (mulMq (Pq n) (trMq Q))

theorem lTab_spec_z : ∀ n, mulMq Qzq (Pq n) = Pq (lTab Qzq n) := by decide +kernel
theorem lTab_spec_x : ∀ n, mulMq Qxq (Pq n) = Pq (lTab Qxq n) := by decide +kernel
theorem rTab_spec_z : ∀ n, mulMq (Pq n) (trMq Qzq) = Pq (rTab Qzq n) := by decide +kernel
theorem rTab_spec_x : ∀ n, mulMq (Pq n) (trMq Qxq) = Pq (rTab Qxq n) := by decide +kernel
theorem lTab_inj_z : Function.Injective (lTab Qzq) := by decide +kernel
theorem lTab_inj_x : Function.Injective (lTab Qxq) := by decide +kernel
theorem rTab_inj_z : Function.Injective (rTab Qzq) := by decide +kernel
theorem rTab_inj_x : Function.Injective (rTab Qxq) := by decide +kernel
theorem Pq_ortho : ∀ (n : Idx) (a b : Fin 3), Pq n 0 a * Pq n 0 b + Pq n 1 a * Pq n 1 b + Pq n 2 a * Pq n 2 b = if a = b then 1 else 0 := by
  decide +kernel

/-! ## the design -/

def Q1q : Mq := ![![-1/3, 2/3, 2/3], ![2/3, -1/3, 2/3], ![2/3, 2/3, -1/3]]

theorem Q1q_ortho : ∀ (a b : Fin 3), Q1q 0 a * Q1q 0 b + Q1q 1 a * Q1q 1 b + Q1q 2 a * Q1q 2 b = if a = b then 1 else 0 := by
  decide +kernel

/-- mean over the 24 rotations of the cube -/
noncomputable def Aavg (g : M3 → ℝ) : ℝ := (1 / 24) * ∑ n : Idx, g (castM (Pq n))

/-- the weighted design -/
noncomputable def designAvg (f : M3 → ℝ) : ℝ :=
  13 / 40 * Aavg f + 27 / 40 * Aavg (fun R => Aavg (fun R' => f (mulM (mulM R (castM Q1q)) R')))

theorem Aavg_add (f g : M3 → ℝ) : Aavg (fun R => f R + g R) = Aavg f + Aavg g := by
  simp only [Aavg, Finset.sum_add_distrib]; ring
theorem Aavg_smul (c : ℝ) (f : M3 → ℝ) : Aavg (fun R => c * f R) = c * Aavg f := by
  simp only [Aavg, ← Finset.mul_sum]; ring
theorem Aavg_one : Aavg (fun _ => 1) = 1 := by
  simp [Aavg]
theorem Aavg_congr (f g : M3 → ℝ) (h : ∀ n, f (castM (Pq n)) = g (castM (Pq n))) : Aavg f = Aavg g := by
  simp only [Aavg, h]

theorem mulM_assoc (A B C : M3) : mulM (mulM A B) C = mulM A (mulM B C) := by
  funext i j
  simp only [mulM, Fin.sum_univ_three]
  ring

/-- reindexing: the mean over the cube rotations is invariant under a bijection of the index set -/
theorem Aavg_reindex (g : M3 → ℝ) (t : Idx → Idx) (ht : Function.Injective t) :
    Aavg (fun R => g R) = (1 / 24) * ∑ n : Idx, g (castM (Pq (t n))) := by
  have hb : Function.Bijective t := Finite.injective_iff_bijective.mp ht
  unfold Aavg
  congr 1
  exact (Fintype.sum_bijective t hb _ _ (fun n => rfl)).symm

theorem castQz : castM Qzq = Qz := by
  funext i p; fin_cases i <;> fin_cases p <;> simp [castM, Qzq, Qz, σz, εz]
theorem castQx : castM Qxq = Qx := by
  funext i p; fin_cases i <;> fin_cases p <;> simp [castM, Qxq, Qx, σx, εx]
theorem castM_tr (Q : Mq) : castM (trMq Q) = trM (castM Q) := rfl

theorem Aavg_left (Qq : Mq) (hs : ∀ n, mulMq Qq (Pq n) = Pq (lTab Qq n)) (hi : Function.Injective (lTab Qq)) (g : M3 → ℝ) :
    Aavg (fun R => g (mulM (castM Qq) R)) = Aavg g := by
  rw [Aavg_reindex g (lTab Qq) hi]
  unfold Aavg
  congr 1
  refine Finset.sum_congr rfl (fun n _ => ?_)
  show g (mulM (castM Qq) (castM (Pq n))) = g (castM (Pq (lTab Qq n)))
  rw [← castM_mul, hs n]

theorem Aavg_right (Qq : Mq) (hs : ∀ n, mulMq (Pq n) (trMq Qq) = Pq (rTab Qq n)) (hi : Function.Injective (rTab Qq)) (g : M3 → ℝ) :
    Aavg (fun R => g (mulM R (trM (castM Qq)))) = Aavg g := by
  rw [Aavg_reindex g (rTab Qq) hi]
  unfold Aavg
  congr 1
  refine Finset.sum_congr rfl (fun n _ => ?_)
  show g (mulM (castM (Pq n)) (trM (castM Qq))) = g (castM (Pq (rTab Qq n)))
  rw [← castM_tr, ← castM_mul, hs n]

/-- the design is invariant - for every function - under the quarter turns from the left … -/
theorem design_left (Qq : Mq) (hs : ∀ n, mulMq Qq (Pq n) = Pq (lTab Qq n)) (hi : Function.Injective (lTab Qq)) (f : M3 → ℝ) :
    designAvg (fun R => f (mulM (castM Qq) R)) = designAvg f := by
  unfold designAvg
  rw [Aavg_left Qq hs hi f]
  have : (fun R => Aavg (fun R' => f (mulM (castM Qq) (mulM (mulM R (castM Q1q)) R'))))
      = fun R => (fun S => Aavg (fun R' => f (mulM (mulM S (castM Q1q)) R'))) (mulM (castM Qq) R) := by
    funext R
    congr 1
    funext R'
    rw [mulM_assoc (castM Qq) R (castM Q1q), mulM_assoc (castM Qq)]
  rw [this, Aavg_left Qq hs hi (fun S => Aavg (fun R' => f (mulM (mulM S (castM Q1q)) R')))]

/-- … and from the right -/
theorem design_right (Qq : Mq) (hs : ∀ n, mulMq (Pq n) (trMq Qq) = Pq (rTab Qq n)) (hi : Function.Injective (rTab Qq)) (f : M3 → ℝ) :
    designAvg (fun R => f (mulM R (trM (castM Qq)))) = designAvg f := by
  unfold designAvg
  rw [Aavg_right Qq hs hi f]
  have : (fun R => Aavg (fun R' => f (mulM (mulM (mulM R (castM Q1q)) R') (trM (castM Qq)))))
      = fun R => Aavg (fun R' => (fun S => f (mulM (mulM R (castM Q1q)) S)) (mulM R' (trM (castM Qq)))) := by
    funext R
    congr 1
    funext R'
    rw [mulM_assoc]
  rw [this]
  congr 2
  refine congrArg Aavg (funext (fun R => ?_))
  exact Aavg_right Qq hs hi (fun S => f (mulM (mulM R (castM Q1q)) S))

/-! ## linearity, support -/

theorem design_add (f g : M3 → ℝ) : designAvg (fun R => f R + g R) = designAvg f + designAvg g := by
  unfold designAvg
  have : (fun R => Aavg (fun R' => f (mulM (mulM R (castM Q1q)) R') + g (mulM (mulM R (castM Q1q)) R')))
      = fun R => Aavg (fun R' => f (mulM (mulM R (castM Q1q)) R')) + Aavg (fun R' => g (mulM (mulM R (castM Q1q)) R')) := by
    funext R; exact Aavg_add _ _
  rw [Aavg_add, this, Aavg_add]; ring

theorem design_smul (c : ℝ) (f : M3 → ℝ) : designAvg (fun R => c * f R) = c * designAvg f := by
  unfold designAvg
  have : (fun R => Aavg (fun R' => c * f (mulM (mulM R (castM Q1q)) R')))
      = fun R => c * Aavg (fun R' => f (mulM (mulM R (castM Q1q)) R')) := by
    funext R; exact Aavg_smul _ _
  rw [Aavg_smul, this, Aavg_smul]; ring

theorem design_one : designAvg (fun _ => 1) = 1 := by
  unfold designAvg
  simp only [Aavg_one]
  norm_num

theorem design_zero : designAvg (fun _ => 0) = 0 := by
  have := design_smul 0 (fun _ => 1)
  simpa using this

theorem design_sum {ι : Type} (s : Finset ι) (f : ι → M3 → ℝ) :
    designAvg (fun R => ∑ x ∈ s, f x R) = ∑ x ∈ s, designAvg (f x) := by
  classical
  induction s using Finset.induction_on with
  | empty => simpa using design_zero
  | insert x s hx ih =>
    simp only [Finset.sum_insert hx]
    rw [design_add, ih]

theorem design_sum4 (g : Fin 3 → Fin 3 → Fin 3 → Fin 3 → ℝ) (f : Fin 3 → Fin 3 → Fin 3 → Fin 3 → M3 → ℝ) :
    designAvg (fun R => ∑ p, ∑ q, ∑ r, ∑ s, g p q r s * f p q r s R) = ∑ p, ∑ q, ∑ r, ∑ s, g p q r s * designAvg (f p q r s) := by
  rw [design_sum]
  refine Finset.sum_congr rfl (fun p _ => ?_)
  rw [design_sum]
  refine Finset.sum_congr rfl (fun q _ => ?_)
  rw [design_sum]
  refine Finset.sum_congr rfl (fun r _ => ?_)
  rw [design_sum]
  refine Finset.sum_congr rfl (fun s _ => ?_)
  rw [design_smul]

theorem castM_ortho (A : Mq) (h : ∀ a b, A 0 a * A 0 b + A 1 a * A 1 b + A 2 a * A 2 b = if a = b then 1 else 0) :
    IsOrtho (castM A) := by
  intro a b
  simp only [castM, Fin.sum_univ_three]
  have h2 : ((A 0 a * A 0 b + A 1 a * A 1 b + A 2 a * A 2 b : ℚ) : ℝ) = ((if a = b then 1 else 0 : ℚ) : ℝ) := by rw [h a b]
  push_cast at h2
  rw [h2]
  split_ifs <;> simp

theorem ortho_mul (A B : M3) (hA : IsOrtho A) (hB : IsOrtho B) : IsOrtho (mulM A B) := by
  intro a b
  have e : (∑ i, mulM A B i a * mulM A B i b)
      = ∑ k, ∑ m, (∑ i, A i k * A i m) * (B k a * B m b) := by
    simp only [mulM, Fin.sum_univ_three]; ring
  rw [e]
  have hA' : ∀ k m, (∑ i, A i k * A i m) = if k = m then 1 else 0 := hA
  simp only [hA']
  have : (∑ k, ∑ m, (if k = m then (1 : ℝ) else 0) * (B k a * B m b)) = ∑ k, B k a * B k b := by
    refine Finset.sum_congr rfl (fun k _ => ?_)
    simp [ite_mul]
  rw [this, hB a b]

theorem design_supp (f g : M3 → ℝ) (h : ∀ R, IsOrtho R → f R = g R) : designAvg f = designAvg g := by
  unfold designAvg
  have hP : ∀ n, IsOrtho (castM (Pq n)) := fun n => castM_ortho _ (Pq_ortho n)
  have hQ : IsOrtho (castM Q1q) := castM_ortho _ Q1q_ortho
  rw [Aavg_congr f g (fun n => h _ (hP n))]
  congr 2
  refine Aavg_congr _ _ (fun n => ?_)
  refine Aavg_congr _ _ (fun m => ?_)
  exact h _ (ortho_mul _ _ (ortho_mul _ _ (hP n) hQ) (hP m))

/-! ## the averaged product of four matrix elements -/

theorem mulM_Qz (R : M3) (i a : Fin 3) : mulM Qz R i a = εz i * R (σz i) a := by
  fin_cases i <;> simp [mulM, Qz, σz, εz, Fin.sum_univ_three]
theorem mulM_Qx (R : M3) (i a : Fin 3) : mulM Qx R i a = εx i * R (σx i) a := by
  fin_cases i <;> simp [mulM, Qx, σx, εx, Fin.sum_univ_three]
theorem mulM_trQz (R : M3) (i a : Fin 3) : mulM R (trM Qz) i a = εz a * R i (σz a) := by
  fin_cases a <;> simp [mulM, trM, Qz, σz, εz, Fin.sum_univ_three]
theorem mulM_trQx (R : M3) (i a : Fin 3) : mulM R (trM Qx) i a = εx a * R i (σx a) := by
  fin_cases a <;> simp [mulM, trM, Qx, σx, εx, Fin.sum_univ_three]

/-- rows: the quarter turns act on the averaged tensor by signed index permutations -/
theorem T8d_row_z (i j k l a b c d : Fin 3) :
    T8 designAvg i j k l a b c d = εz i * εz j * εz k * εz l * T8 designAvg (σz i) (σz j) (σz k) (σz l) a b c d := by
  have h := design_left Qzq lTab_spec_z lTab_inj_z (fun R => R i a * R j b * R k c * R l d)
  rw [castQz] at h
  simp only [mulM_Qz] at h
  unfold T8
  rw [← h, ← design_smul]
  congr 1; funext R; ring
theorem T8d_row_x (i j k l a b c d : Fin 3) :
    T8 designAvg i j k l a b c d = εx i * εx j * εx k * εx l * T8 designAvg (σx i) (σx j) (σx k) (σx l) a b c d := by
  have h := design_left Qxq lTab_spec_x lTab_inj_x (fun R => R i a * R j b * R k c * R l d)
  rw [castQx] at h
  simp only [mulM_Qx] at h
  unfold T8
  rw [← h, ← design_smul]
  congr 1; funext R; ring
theorem T8d_col_z (i j k l a b c d : Fin 3) :
    T8 designAvg i j k l a b c d = εz a * εz b * εz c * εz d * T8 designAvg i j k l (σz a) (σz b) (σz c) (σz d) := by
  have h := design_right Qzq rTab_spec_z rTab_inj_z (fun R => R i a * R j b * R k c * R l d)
  rw [castQz] at h
  simp only [mulM_trQz] at h
  unfold T8
  rw [← h, ← design_smul]
  congr 1; funext R; ring
theorem T8d_col_x (i j k l a b c d : Fin 3) :
    T8 designAvg i j k l a b c d = εx a * εx b * εx c * εx d * T8 designAvg i j k l (σx a) (σx b) (σx c) (σx d) := by
  have h := design_right Qxq rTab_spec_x rTab_inj_x (fun R => R i a * R j b * R k c * R l d)
  rw [castQx] at h
  simp only [mulM_trQx] at h
  unfold T8
  rw [← h, ← design_smul]
  congr 1; funext R; ring

/-- the same quantity computed in ℚ -/
def monq (M : Mq) (i j k l a b c d : Fin 3) : ℚ := M i a * M j b * M k c * M l d
def t8q (i j k l a b c d : Fin 3) : ℚ :=
  13 / 40 * ((1 / 24) * ∑ n : Idx, monq (Pq n) i j k l a b c d)
  + 27 / 40 * ((1 / 24) * ∑ n : Idx, (1 / 24) * ∑ m : Idx, monq (mulMq (mulMq (Pq n) Q1q) (Pq m)) i j k l a b c d)

theorem T8d_cast (i j k l a b c d : Fin 3) : T8 designAvg i j k l a b c d = ((t8q i j k l a b c d : ℚ) : ℝ) := by
  unfold T8 designAvg Aavg t8q monq
  simp only [← castM_mul, castM]
  push_cast
  ring

def canon : Fin 4 → Fin 3 × Fin 3 × Fin 3 × Fin 3 := ![(0, 0, 1, 1), (0, 1, 0, 1), (0, 1, 1, 0), (0, 0, 0, 0)]
def valq : Fin 4 → Fin 4 → ℚ := fun u v =>
  if u = 3 ∧ v = 3 then 1 / 5 else if u = 3 ∨ v = 3 then 1 / 15 else if u = v then 4 / 30 else -1 / 30

/-- the sixteen numbers that determine the tensor (computed exactly by the kernel) -/
theorem t8q_canon : ∀ u v : Fin 4,
    t8q (canon u).1 (canon u).2.1 (canon u).2.2.1 (canon u).2.2.2 (canon v).1 (canon v).2.1 (canon v).2.2.1 (canon v).2.2.2 = valq u v := by
  decide +kernel

end QV.C12
