import QV.Core.Num
import QV.Model.C10
open QV QV.C03 QV.C10

def showNats (l : List Nat) : String := "".intercalate (l.map toString)

/-- line: vib nmol ; per molecule: nmodes ; per (molecule, mode, level 0/1): nmax, shift-id, omega ;
then site energies, couplings (n*n), dipoles x, L (table size), nshift, tables (nshift*L*L, indexed by shift-id pair id = a*nshift+b) -/
def stepD (_ : Unit) (ts : List String) : Unit × String :=
  match ts with
  | ["ndindex" , rest] =>
    match parseNats? (rest.splitOn ",") with
    | some dims => ((), " ".intercalate ((ndindex dims).map showNats))
    | none => ((), "bad-op")
  | "vib" :: n :: rest =>
    match n.toNat?, parseRats? rest with
    | some n, some vals =>
      let a := vals.toArray
      let nat := fun (i : Nat) => (a[i]!).num.toNat
      -- header
      let nmodes : Nat → Nat := fun m => nat m
      let off0 := n
      let modeOff : Nat → Nat := fun m => ((List.range m).map nmodes).sum
      let M := modeOff n
      -- per global mode g and level e: nmax, shiftid, omega  (3 numbers each, level-major within a mode)
      let gfield := fun (g e f : Nat) => a[off0 + (g * 2 + e) * 3 + f]!
      let off1 := off0 + M * 6
      let E := fun (k : Nat) => a[off1 + k]!
      let J := fun (k l : Nat) => a[off1 + n + k * n + l]!
      let d := fun (k : Nat) => a[off1 + n + n * n + k]!
      let off2 := off1 + 2 * n + n * n
      let L := nat off2
      let ns := nat (off2 + 1)
      let tab := fun (sa sb q1 q2 : Nat) => a[off2 + 2 + ((sa * ns + sb) * L + q1) * L + q2]!
      -- owner molecule of global mode g
      let owner : Nat → Nat := fun g => ((List.range n).filter fun m => modeOff m ≤ g ∧ g < modeOff (m + 1)).headD 0
      let sigs := elsigs (List.replicate n 1) 1
      let lev := fun (σ : List Nat) (g : Nat) => σ[owner g]?.getD 0
      let nmaxOf := fun (σ : List Nat) => (List.range M).map fun g => (gfield g (lev σ g) 0).num.toNat
      let fc := fun (σ1 σ2 : List Nat) (g q1 q2 : Nat) =>
        tab (gfield g (lev σ1 g) 1).num.toNat (gfield g (lev σ2 g) 1).num.toNat q1 q2
      let omega := fun (σ : List Nat) (g : Nat) => gfield g (lev σ g) 2
      let elen : Nat → Nat → Rat := fun k l => if l = 0 then 0 else E k
      let states := (allStates sigs nmaxOf).toArray
      let idxOf := fun (σ : List Nat) => (sigs.idxOf? σ).getD 0
      let N := states.size
      let hh := (List.range N).flatMap fun i => (List.range N).map fun j =>
        if i = j then vibEnergy elen omega (fun k => (k : Rat)) states[i]!
        else vibCoupling n J fc idxOf states[i]! states[j]!
      let dd := (List.range N).flatMap fun i => (List.range N).map fun j => vibDipole d fc states[i]! states[j]!
      let ff := (List.range N).flatMap fun i => (List.range N).map fun j => fcFactor fc states[i]! states[j]!
      ((), s!"{N} ; " ++ " ".intercalate (states.toList.map fun s => showNats s.1 ++ ":" ++ showNats s.2) ++ " ; " ++
        " ".intercalate (hh.map showRat) ++ " ; " ++ " ".intercalate (dd.map showRat) ++ " ; " ++ " ".intercalate (ff.map showRat))
    | _, _ => ((), "bad-op")
  | _ => ((), "bad-op")

def main : IO Unit := runDriver stepD ()
