"""C03 - aggregate Hamiltonian and dipole operator are the Frenkel-exciton ones."""
import math
from qvh.core import *

DRIVER = "C03"
PROPS = "QV.Props.C03"


def run(ck):
    import numpy, scipy.constants as const
    qr = import_quantarhei()
    from quantarhei import Molecule, Aggregate, energy_units, Manager
    rng = ck.rng
    ck.rule = ("aggregates of 1-6 two-level molecules (thorough: up to 7), multiplicities 1 and 2, integer site energies / couplings / dipoles "
               "given in internal units (exact) or in 1/cm / eV contexts, built inside random unit contexts: signatures, bands, band sizes, RWA "
               "indices, every Hamiltonian and dipole-operator element compared with the model (exact for internal units, 1e-9 otherwise); "
               "oracle: Frenkel rules element by element from an independent reference, symmetry, relabelling invariance of spectrum and "
               "dipole strengths, independence of the unit context, point-dipole formula in Debye/Angstrom (float and integer positions, "
               "several eps_r); non-trivial = at least 3 molecules with multiplicity 2, or a non-trivial permutation / unit context")
    ck.trusted += ["harness/c03.py; hand model QV/Model/C03.lean (signature generator, element rules) validated on generated inputs",
                   "the numerical value of eps0 in internal units is taken from the code (quantarhei.core.units.eps0_int) and cross-checked "
                   "against scipy.constants within 1e-6"]
    ck.prove(PROPS, extra_modules=["QV.Drive.C03"], also=["QV.Props.C03Enum"])
    lines, impl, tol = [], [], []
    combos = [(n, mu) for n in range(1, ck.n(6, 7) + 1) for mu in (1, 2)]
    nrep = ck.n(2, 6)
    for (n, mult) in combos:
        for rep in range(nrep):
            E = [rng.randint(5, 40) for _ in range(n)]
            J = [[0] * n for _ in range(n)]
            for i in range(n):
                for j in range(i + 1, n):
                    J[i][j] = J[j][i] = rng.randint(-6, 6)
            D = [[rng.randint(-4, 4) for _ in range(3)] for _ in range(n)]
            unit = rng.choice(["int", "int", "1/cm", "eV"])
            build_unit = rng.choice([None, "1/cm", "eV", "THz"])
            inp = {"n": n, "mult": mult, "E": E, "J": J, "D": D, "input_units": unit, "build_inside": build_unit}
            try:
                agg = make(qr, numpy, E, J, D, unit, build_unit, mult)
                HH = numpy.array(agg.HH)
                DD = numpy.array(agg.DD)
            except Exception as e:
                ck.fail("raises:build", "building the aggregate raised %r" % (e,), inp)
                continue
            sigs = ["".join(str(x) for x in s) for s in agg.elsigs]
            ck.case(("agg", n, mult, tuple(E), str(J), str(D), unit, build_unit), nontrivial=(n >= 3 and mult == 2) or unit != "int" or build_unit is not None,
                    n=n, mult=mult, units=unit, sample=inp if (n, mult, rep) == (3, 2, 0) else None)
            if Manager().get_current_units("energy") != "1/fs":
                ck.fail("units-left", "building left the energy units changed", inp, Manager().get_current_units("energy"))
                Manager().current_units["energy"] = "1/fs"
            # the conversion factor of the input units
            fac = 1.0 if unit == "int" else float(qr.convert(1.0, unit, "int"))
            lines.append("sigs %d %d" % (n, mult)); impl.append(" ".join(sigs)); tol.append(None)
            ham_line = "ham %d %d %s %s %s" % (n, mult, " ".join(frac(e) for e in E), " ".join(frac(J[i][j]) for i in range(n) for j in range(n)),
                                               " ".join(frac(D[k][0]) for k in range(n)))
            lines.append(ham_line)
            impl.append(" ".join(frac(x / fac) for x in HH.flatten()) + " | " + " ".join(frac(x) for x in DD[:, :, 0].flatten()))
            tol.append(0.0 if unit == "int" else 1e-9)
            # ---- independent Frenkel reference --------------------------------------------------------
            ref_sigs = reference_signatures(n, mult)
            if [tuple(int(c) for c in s) for s in sigs] != ref_sigs:
                ck.fail("signatures", "electronic states are not all 0/1 signatures with at most `mult` excitations ordered by band", inp, sigs)
                continue
            Href, Dref = reference(numpy, ref_sigs, E, J, D)
            Hi = HH / fac
            if numpy.abs(Hi - Href).max() > 1e-9 * max(1.0, numpy.abs(Href).max()):
                bad = numpy.argwhere(numpy.abs(Hi - Href) > 1e-9 * max(1.0, numpy.abs(Href).max()))[0]
                ck.fail("hamiltonian", "Hamiltonian element differs from the Frenkel-exciton rule", dict(inp, states=[sigs[bad[0]], sigs[bad[1]]]),
                        float(Hi[bad[0], bad[1]]), float(Href[bad[0], bad[1]]))
            if numpy.abs(DD - Dref).max() > 1e-12 * max(1.0, numpy.abs(Dref).max()):
                bad = numpy.argwhere(numpy.abs(DD - Dref).max(axis=2) > 1e-12)[0]
                ck.fail("dipole-operator", "transition-dipole element differs from the selection rule", dict(inp, states=[sigs[bad[0]], sigs[bad[1]]]),
                        DD[bad[0], bad[1]].tolist(), Dref[bad[0], bad[1]].tolist())
            if numpy.abs(HH - HH.T).max() != 0:
                ck.fail("symmetry", "Hamiltonian not symmetric", inp)
            # the purely electronic Hamiltonian handed out separately is the same Frenkel matrix (no vibrational modes here)
            try:
                He = numpy.array(agg.get_electronic_Hamiltonian().data) / fac
                if He.shape != Href.shape or numpy.abs(He - Href).max() > 1e-9 * max(1.0, numpy.abs(Href).max()):
                    ck.fail("electronic-hamiltonian", "get_electronic_Hamiltonian() differs from the Frenkel-exciton rule", inp,
                            float(numpy.abs(He - Href).max()) if He.shape == Href.shape else list(He.shape))
                # ... also when it is asked for inside a units context (values then read in those units)
                for uq in ("1/cm", "eV"):
                    fq = float(qr.convert(1.0, uq, "int"))
                    with energy_units(uq):
                        Hq = numpy.array(agg.get_electronic_Hamiltonian().data) * fq / fac
                    if Hq.shape != Href.shape or numpy.abs(Hq - Href).max() > 1e-9 * max(1.0, numpy.abs(Href).max()):
                        ck.fail("electronic-hamiltonian:units", "get_electronic_Hamiltonian() requested inside energy_units(%r) differs from the "
                                "Frenkel-exciton rule" % uq, dict(inp, requested_inside=uq), float(numpy.abs(Hq - Href).max()) if Hq.shape == Href.shape else list(Hq.shape))
            except Exception as e:
                ck.fail("raises:electronic-hamiltonian", "get_electronic_Hamiltonian raised %r" % (e,), inp)
            # ---- the Hamiltonian handed out is still the Frenkel matrix after the cut-off bracket that the combined theories put around
            # their work (couplings above the cut-off reduced by it, then given back), for couplings of both signs -----------------------
            if rep % 2 == 1 and n >= 2:
                try:
                    Hop = agg.get_Hamiltonian()
                    mags = sorted(abs(J[i][j]) for i in range(n) for j in range(i + 1, n) if J[i][j] != 0)
                    if mags:
                        cut_in = 0.5 * mags[len(mags) // 2] if mags[len(mags) // 2] > 0 else 0.5        # in input units: below the median magnitude
                        with energy_units(unit):
                            Hop.subtract_cutoff_coupling(cut_in)
                        mid = numpy.array(Hop._data) / fac
                        Hop.recover_cutoff_coupling()
                        back = numpy.array(Hop._data) / fac
                        if numpy.abs(back - Href).max() > 1e-9 * max(1.0, numpy.abs(Href).max()):
                            ck.fail("hamiltonian:after-cutoff-bracket", "the Hamiltonian is not the Frenkel matrix any more after subtract_cutoff_coupling + "
                                    "recover_cutoff_coupling", dict(inp, cutoff=cut_in), float(numpy.abs(back - Href).max()))
                        # in between: every coupling above the cut-off is reduced in magnitude by it, the smaller ones are gone
                        for i_ in range(1, n + 1):
                            for j_ in range(i_ + 1, n + 1):
                                jv = float(J[i_ - 1][j_ - 1])
                                wantm = 0.0 if abs(jv) <= cut_in else (abs(jv) - cut_in) * (1 if jv > 0 else -1)
                                if abs(mid[i_, j_] - wantm) > 1e-9 * max(1.0, abs(jv)):
                                    ck.fail("hamiltonian:inside-cutoff-bracket", "coupling inside the cut-off bracket is not sign(J)(|J| - c)", dict(inp, cutoff=cut_in, pair=[i_, j_]),
                                            float(mid[i_, j_]), wantm)
                except Exception as e:
                    ck.fail("raises:cutoff-bracket", "subtract/recover_cutoff_coupling raised %r" % (e,), inp)
            # ---- the operators handed out stay the Frenkel ones after the aggregate transformed its internal copies ----------
            if rep % 2 == 0 and n >= 2:
                try:
                    H_op = agg.get_Hamiltonian()
                    D_op = agg.get_TransitionDipoleMoment()
                    h0 = numpy.array(H_op.data).copy()
                    d0 = numpy.array(D_op.data).copy()
                    agg.diagonalize()
                    h1 = numpy.array(agg.get_Hamiltonian().data)
                    d1 = numpy.array(agg.get_TransitionDipoleMoment().data)
                    if numpy.abs(d0 - Dref).max() > 1e-12 * max(1.0, numpy.abs(Dref).max()) or numpy.abs(d1 - d0).max() > 0 \
                            or numpy.abs(numpy.array(D_op.data) - d0).max() > 0:
                        ck.fail("dipole-operator:after-diagonalize", "the dipole operator handed out by the aggregate is not the Frenkel operator any more "
                                "after Aggregate.diagonalize()", inp, float(numpy.abs(d1 - Dref).max()))
                    if numpy.abs(h1 - h0).max() > 0 or numpy.abs(numpy.array(H_op.data) - h0).max() > 0:
                        ck.fail("hamiltonian:after-diagonalize", "the Hamiltonian handed out by the aggregate changed after Aggregate.diagonalize()",
                                inp, float(numpy.abs(h1 - h0).max()))
                except Exception as e:
                    ck.fail("raises:diagonalize", "diagonalize / operator access raised %r" % (e,), inp)
            # ---- the same aggregate built again (rebuild / clean + build, the other multiplicity): still the Frenkel matrix of its molecules
            # and couplings
            if rep % 2 == 1 and n >= 2:
                mult2 = 3 - mult
                how = ("rebuild", "clean+build")[(n + rep // 2) % 2]
                try:
                    if how == "rebuild":
                        agg.rebuild(mult=mult2)
                    else:
                        agg.clean(); agg.build(mult=mult2)
                    sig2 = reference_signatures(n, mult2)
                    Href2, Dref2 = reference(numpy, sig2, E, J, D)
                    H2b = numpy.array(agg.HH) / fac; D2b = numpy.array(agg.DD)
                    ck.case(("agg-rebuilt", n, mult, how, tuple(E), str(J)), nontrivial=True, n=n, mult=mult2, units=unit)
                    if H2b.shape != Href2.shape or numpy.abs(H2b - Href2).max() > 1e-9 * max(1.0, numpy.abs(Href2).max()):
                        ck.fail("hamiltonian:rebuilt", "Hamiltonian after %s(mult=%d) differs from the Frenkel-exciton rule" % (how, mult2), dict(inp, history=how),
                                float(numpy.abs(H2b - Href2).max()) if H2b.shape == Href2.shape else list(H2b.shape))
                    if D2b.shape != Dref2.shape or numpy.abs(D2b - Dref2).max() > 1e-12 * max(1.0, numpy.abs(Dref2).max()):
                        ck.fail("dipole-operator:rebuilt", "dipole operator after %s(mult=%d) differs from the selection rule" % (how, mult2), dict(inp, history=how))
                    agg.rebuild(mult=mult)       # back to the multiplicity the rest of the checks refer to
                except Exception as e:
                    ck.fail("raises:rebuild", "%s raised %r" % (how, e), inp)
            nb = [sum(1 for s in ref_sigs if sum(s) == b) for b in range(mult + 1)]
            if list(agg.Nb) != nb or list(agg.get_Hamiltonian().rwa_indices) != [sum(nb[:b]) for b in range(mult + 1)]:
                ck.fail("bands", "band sizes / RWA indices wrong", inp, [list(agg.Nb), list(agg.get_Hamiltonian().rwa_indices)], nb)
            # ---- relabelling and unit independence ---------------------------------------------------------
            if n >= 2:
                perm = list(range(n)); rng.shuffle(perm)
                Ep = [E[p] for p in perm]; Dp = [D[p] for p in perm]
                Jp = [[J[perm[i]][perm[j]] for j in range(n)] for i in range(n)]
                other_unit = rng.choice(["int", "1/cm", "eV"])
                facs = {u: (1.0 if u == "int" else float(qr.convert(1.0, u, "int"))) for u in ("int", "1/cm", "eV")}
                sc = facs[unit] / facs[other_unit]
                try:
                    agg2 = make(qr, numpy, [e * sc for e in Ep], [[x * sc for x in r] for r in Jp], Dp, other_unit, rng.choice([None, "1/cm"]), mult)
                    H2 = numpy.array(agg2.HH); D2 = numpy.array(agg2.DD)
                    e1 = numpy.linalg.eigvalsh(HH); e2 = numpy.linalg.eigvalsh(H2)
                    if numpy.abs(e1 - e2).max() > 1e-9 * max(1.0, numpy.abs(e1).max()):
                        ck.fail("relabel:spectrum", "spectrum changes under relabelling of the molecules / other input units",
                                dict(inp, perm=perm, other_units=other_unit), float(numpy.abs(e1 - e2).max()))
                    s1 = sorted(float(numpy.dot(DD[0, a], DD[0, a])) for a in range(1, 1 + n))
                    s2 = sorted(float(numpy.dot(D2[0, a], D2[0, a])) for a in range(1, 1 + n))
                    if numpy.abs(numpy.array(s1) - numpy.array(s2)).max() > 1e-9:
                        ck.fail("relabel:dipoles", "site dipole strengths change under relabelling", dict(inp, perm=perm))
                    # exciton dipole strengths (basis independent comparison through the sorted spectrum of D D^T restricted to band 1)
                    w1, S1 = numpy.linalg.eigh(HH); w2, S2 = numpy.linalg.eigh(H2)
                    if len(set(numpy.round(w1, 9))) == len(w1):
                        ds1 = sorted(float(numpy.sum(numpy.einsum("a,ai->i", S1[:, k], DD[0, :, :]) ** 2)) for k in range(len(w1)))
                        ds2 = sorted(float(numpy.sum(numpy.einsum("a,ai->i", S2[:, k], D2[0, :, :]) ** 2)) for k in range(len(w2)))
                        if numpy.abs(numpy.array(ds1) - numpy.array(ds2)).max() > 1e-8 * max(1.0, max(ds1)):
                            ck.fail("relabel:exciton-dipoles", "exciton dipole strengths change under relabelling", dict(inp, perm=perm))
                except Exception as e:
                    ck.fail("raises:relabel", "relabelled build raised %r" % (e,), dict(inp, perm=perm))
                # the aggregate diagonalised by its own method: the dipole strengths it then holds (D2, all pairs of states) are those of the
                # exciton states
                try:
                    wd, Sd = numpy.linalg.eigh(HH)
                    if len(set(numpy.round(wd, 9))) == len(wd):
                        aggd = make(qr, numpy, E, J, D, unit, None, mult)
                        aggd.diagonalize()
                        # the electronic Hamiltonian asked for after the aggregate diagonalised itself is still the Frenkel matrix
                        with qr.energy_units("int"):
                            He_after = numpy.array(aggd.get_electronic_Hamiltonian().data)
                        if He_after.shape != HH.shape or numpy.abs(He_after - HH).max() > 1e-9 * max(1.0, float(numpy.abs(HH).max())):
                            ck.fail("electronic-hamiltonian:after-diagonalize", "get_electronic_Hamiltonian() after Aggregate.diagonalize() is not the Frenkel-exciton matrix "
                                    "of the molecules", inp, float(numpy.abs(He_after - HH).max()) if He_after.shape == HH.shape else "shape")
                        D2got = numpy.array(aggd.D2, dtype=float)
                        DDx = numpy.einsum("ai,abn,bj->ijn", Sd, DD, Sd)
                        D2want = numpy.sum(DDx ** 2, axis=2)
                        dvd = float(numpy.abs(D2got - D2want).max())
                        ck.resid("dipole strengths held after Aggregate.diagonalize() vs exciton transformation", dvd)
                        if dvd > 1e-9 * max(1.0, float(D2want.max())):
                            ij = numpy.unravel_index(int(numpy.argmax(numpy.abs(D2got - D2want))), D2got.shape)
                            ck.fail("exciton-dipoles:after-diagonalize", "dipole strengths held by the aggregate after diagonalize() are not those of the exciton states "
                                    "(|sum_ab c_ai d_ab c_bj|^2)", dict(inp, states=[int(ij[0]), int(ij[1])]), float(D2got[ij]), float(D2want[ij]))
                except Exception as e:
                    ck.fail("raises:exciton-dipoles:after-diagonalize", "diagonalize / D2 raised %r" % (e,), inp)
                # the exciton dipole strengths as a user asks for them: dipole_strength() inside the Hamiltonian's eigenbasis, as the first thing
                # done with the dipole operator there
                try:
                    w1, S1 = numpy.linalg.eigh(HH)
                    if len(set(numpy.round(w1, 9))) == len(w1) and w1[0] == HH[0, 0]:
                        Dop, Hop = agg.get_TransitionDipoleMoment(), agg.get_Hamiltonian()
                        with qr.eigenbasis_of(Hop):
                            got_s = [float(Dop.dipole_strength(0, k)) for k in range(1, len(w1))]
                        want_s = [float(numpy.sum(numpy.einsum("a,ai->i", S1[:, k], DD[0, :, :]) ** 2)) for k in range(1, len(w1))]
                        if numpy.abs(numpy.array(got_s) - numpy.array(want_s)).max() > 1e-9 * max(1.0, max(want_s)):
                            ck.fail("exciton-dipoles:dipole_strength-in-eigenbasis", "dipole_strength(0,k) asked for inside eigenbasis_of(H) is not the strength of the "
                                    "exciton transition |sum_n c_nk d_n|^2", inp, got_s, want_s)
                except Exception as e:
                    ck.fail("raises:dipole_strength-in-eigenbasis", "dipole_strength inside eigenbasis_of raised %r" % (e,), inp)
    multilevel(ck, qr, numpy)
    point_dipole(ck, qr, numpy, const)
    model = ck.drive(DRIVER, lines)
    if model is not None:
        for l, a, b, t in zip(lines, impl, model, tol):
            ck.traces += 1
            if t is None:
                if a != b:
                    ck.disagree("signatures differ", l, a, b)
            else:
                fa = [float(Fraction(x)) for x in a.replace("|", " ").split()]
                fb = [float(Fraction(x)) for x in b.replace("|", " ").split()]
                d = max(abs(x - y) for x, y in zip(fa, fb)) if len(fa) == len(fb) else float("inf")
                if d > t * max([1.0] + [abs(y) for y in fb]):
                    ck.disagree("Hamiltonian / dipole elements differ by %.3g" % d, l[:160], a[:200], b[:200])
    return ck.finish()


def make(qr, numpy, E, J, D, unit, build_unit, mult, positions=None):
    from quantarhei import Molecule, Aggregate, energy_units
    n = len(E)
    with energy_units(unit):
        mols = []
        for k in range(n):
            m = Molecule([0.0, float(E[k])])
            m.set_dipole(0, 1, [float(x) for x in D[k]])
            mols.append(m)
        agg = Aggregate(mols)
        for i in range(n):
            for j in range(i + 1, n):
                agg.set_resonance_coupling(i, j, float(J[i][j]))
    if build_unit:
        with energy_units(build_unit):
            agg.build(mult=mult)
    else:
        agg.build(mult=mult)
    return agg


def reference_signatures(n, mult):
    import itertools
    out = [tuple([0] * n)]
    for b in range(1, mult + 1):
        for pos in itertools.combinations(range(n), b):
            out.append(tuple(1 if i in pos else 0 for i in range(n)))
    return out


def reference(numpy, sigs, E, J, D):
    N = len(sigs)
    n = len(E)
    H = numpy.zeros((N, N)); DD = numpy.zeros((N, N, 3))
    for a, s in enumerate(sigs):
        H[a, a] = sum(E[i] for i in range(n) if s[i])
        for b, t in enumerate(sigs):
            diff = [i for i in range(n) if s[i] != t[i]]
            if a != b and sum(s) == sum(t) and len(diff) == 2:
                H[a, b] = J[diff[0]][diff[1]]
            if abs(sum(s) - sum(t)) == 1 and len(diff) == 1:
                DD[a, b, :] = D[diff[0]]
    return H, DD


def point_dipole(ck, qr, numpy, const):
    from quantarhei import Molecule, Aggregate, energy_units
    from quantarhei.core.units import eps0_int
    rng = ck.rng
    # the constant in Debye/Angstrom -> internal (1/fs) units from SI constants
    Debye = 1.0e-21 / const.c                 # C m
    pref_SI = 1.0 / (4 * math.pi * const.epsilon_0)
    shared_params = {}
    for h in range(ck.n(20, 300)):
        kind = rng.choice(["float", "int", "whole"])
        d1 = [rng.randint(-4, 4) / 2.0 for _ in range(3)]; d2 = [rng.randint(-4, 4) / 2.0 for _ in range(3)]
        if not any(d1): d1[0] = 1.0
        if not any(d2): d2[1] = 1.0
        if kind == "float":
            r1 = [rng.randint(-20, 20) / 2.0 for _ in range(3)]; r2 = [r1[0] + rng.randint(5, 20) + 0.5, rng.randint(-20, 20) / 2.0, 0.25]
        elif kind == "int":
            r1 = [rng.randint(-10, 10) for _ in range(3)]; r2 = [r1[0] + rng.randint(5, 20), rng.randint(-10, 10), rng.randint(-3, 3)]
        else:
            r1 = [float(rng.randint(-10, 10)) for _ in range(3)]; r2 = [r1[0] + float(rng.randint(5, 20)), 0.0, 1.0]
        epsr = rng.choice([1.0, 1.0, 2.0, 3.5])
        inp = {"d1": d1, "d2": d2, "r1": r1, "r2": r2, "eps_r": epsr, "positions": kind}
        with energy_units("1/cm"):
            m1 = Molecule([0.0, 12000.0]); m2 = Molecule([0.0, 12100.0])
        m1.set_dipole(0, 1, d1); m2.set_dipole(0, 1, d2)
        m1.position = numpy.array(r1) if kind != "int" else numpy.array(r1, dtype=int)
        m2.position = numpy.array(r2) if kind != "int" else numpy.array(r2, dtype=int)
        agg = Aggregate([m1, m2])
        # both entry points; the parameter dictionaries are the caller's and are reused for later aggregates (as a script would)
        entry = ("set_coupling_by_dipole_dipole", "calculate_resonance_coupling", "calculate_resonance_coupling")[h % 3]
        inp["entry_point"] = entry
        try:
            if entry == "set_coupling_by_dipole_dipole":
                agg.set_coupling_by_dipole_dipole(epsr=epsr)
            elif epsr == 1.0 and h % 2 == 0:
                agg.calculate_resonance_coupling()
            else:
                pd = shared_params.setdefault(epsr, {"epsr": epsr})
                agg.calculate_resonance_coupling(method="dipole-dipole", params=pd)
                inp["params_dictionary_after_call"] = repr(pd)   # not judged by itself: only the couplings of later calls are
            agg.build()
            got = float(agg.HH[1, 2])
        except Exception as e:
            ck.fail("raises:dipole-dipole", "coupling by dipole-dipole raised %r" % (e,), inp)
            continue
        R = numpy.array(r1, dtype=float) - numpy.array(r2, dtype=float)
        RR = math.sqrt(float(numpy.dot(R, R)))
        nvec = R / RR
        geo = (numpy.dot(d1, d2) - 3.0 * numpy.dot(d1, nvec) * numpy.dot(d2, nvec)) / RR ** 3
        # Debye^2/Angstrom^3 -> Joule -> rad/fs
        want = pref_SI * (Debye ** 2) / (1e-10 ** 3) * geo / epsr / const.hbar * 1e-15
        ck.case(("dd", str(inp)), nontrivial=True, kind="point-dipole", positions=kind, sample=inp if h < 1 else None)
        if abs(got - want) > 1e-6 * max(abs(want), 1e-12):
            ck.fail("point-dipole:%s" % kind, "generated coupling differs from the point-dipole formula in Debye/Angstrom", inp, got, want)
        got2 = float(agg.HH[2, 1])
        if got2 != got:
            ck.fail("point-dipole:symmetric", "generated coupling not symmetric", inp)


    # ---- a history on ONE aggregate: couplings generated, a dipole changed (also to zero: a dark molecule), couplings generated again and
    # the aggregate rebuilt - every coupling follows the formula for the dipoles as they are now ------------------------------------------
    for h in range(ck.n(3, 12)):
        pos3 = [[0.0, 0.0, 0.0], [8.0 + h, 1.0, 0.0], [3.0, 9.0 + h, 2.0]]
        dip3 = [[1.0, 0.5, 0.0], [0.0, 2.0, -1.0], [1.5, 0.0, 1.0]]
        dark = h % 3
        inp = {"history": "set_coupling_by_dipole_dipole; molecule %d gets dipole %s; set_coupling_by_dipole_dipole; rebuild" % (dark, "0" if h % 2 == 0 else "x2"),
               "positions": pos3, "dipoles": dip3}
        try:
            with energy_units("1/cm"):
                ms3 = [Molecule([0.0, 12000.0 + 50.0 * k_]) for k_ in range(3)]
            for k_ in range(3):
                ms3[k_].set_dipole(0, 1, dip3[k_]); ms3[k_].position = numpy.array(pos3[k_])
            ag3 = Aggregate(ms3)
            ag3.set_coupling_by_dipole_dipole(epsr=1.0)
            ag3.build()
            newd = [0.0, 0.0, 0.0] if h % 2 == 0 else [2.0 * x_ for x_ in dip3[dark]]
            ms3[dark].set_dipole(0, 1, newd)
            dnow = [list(dip3[k_]) if k_ != dark else newd for k_ in range(3)]
            ag3.set_coupling_by_dipole_dipole(epsr=1.0)
            ag3.rebuild() if hasattr(ag3, "rebuild") else ag3.build()
            ck.case(("dd-history", h), nontrivial=True, kind="point-dipole", positions="history")
            for i_ in range(3):
                for j_ in range(i_ + 1, 3):
                    R = numpy.array(pos3[i_]) - numpy.array(pos3[j_]); RR = math.sqrt(float(numpy.dot(R, R))); nv = R / RR
                    geo = (numpy.dot(dnow[i_], dnow[j_]) - 3.0 * numpy.dot(dnow[i_], nv) * numpy.dot(dnow[j_], nv)) / RR ** 3
                    want = pref_SI * (Debye ** 2) / (1e-10 ** 3) * geo / const.hbar * 1e-15
                    got = float(ag3.HH[1 + i_, 1 + j_])
                    if abs(got - want) > 1e-6 * max(abs(want), 1e-9):
                        ck.fail("point-dipole:regenerated", "after the dipole of a molecule was changed and the couplings were generated again, a coupling is not the "
                                "point-dipole value for the present dipoles", dict(inp, pair=[i_, j_]), got, want)
        except Exception as e:
            ck.fail("raises:dipole-dipole:history", "raised %r" % (e,), inp)


def multilevel(ck, qr, numpy):
    """molecules with more than one excited level: the states are still ordered by band (total number of excitation quanta), every
    signature allowed by the level counts occurs exactly once, and the diagonal is the sum of the molecular level energies"""
    import itertools
    from quantarhei import Molecule, Aggregate, energy_units
    rng = ck.rng
    for h in range(ck.n(4, 20)):
        n = rng.choice([2, 2, 3])
        mult = 2 if h % 4 != 3 else 1
        levels = [rng.choice([2, 3, 3]) for _ in range(n)]
        if h == 0:
            n, levels = 2, [3, 3]
        if h == 1:
            n, levels = 3, [3, 2, 3]
        ens = [[0.0] + sorted(rng.randint(8, 30) / 8.0 + 1.5 * q for q in range(levels[k] - 1)) for k in range(n)]
        inp = {"levels_per_molecule": levels, "energies": ens, "mult": mult}
        try:
            agg = Aggregate([Molecule(list(e)) for e in ens])
            agg.build(mult=mult)
            sigs = [tuple(int(x) for x in s_) for s_ in agg.elsigs]
            Hd = numpy.real(numpy.diag(numpy.array(agg.HH)))
        except Exception as e:
            ck.fail("raises:multilevel", "building an aggregate of multi-level molecules raised %r" % (e,), inp)
            continue
        ck.case(("multilevel", tuple(levels), mult, h), nontrivial=True, n=n, mult=mult, units="int")
        want = [t for t in itertools.product(*[range(l) for l in levels]) if sum(t) <= mult]
        if sorted(sigs) != sorted(want) or len(set(sigs)) != len(sigs):
            ck.fail("signatures:multilevel", "electronic states of multi-level molecules are not every signature with at most `mult` quanta exactly once",
                    inp, sigs, sorted(want, key=lambda t: (sum(t), t)))
            continue
        if [sum(t) for t in sigs] != sorted(sum(t) for t in sigs):
            ck.fail("signatures:multilevel:order", "states of multi-level molecules are not ordered by band", inp, sigs)
        nb = [sum(1 for t in sigs if sum(t) == b) for b in range(mult + 1)]
        if list(agg.Nb) != nb:
            ck.fail("bands:multilevel", "band sizes wrong for multi-level molecules", inp, list(agg.Nb), nb)
        wantd = numpy.array([sum(ens[k][t[k]] for k in range(n)) for t in sigs])
        if numpy.abs(Hd - wantd).max() > 1e-12 * max(1.0, numpy.abs(wantd).max()):
            ck.fail("hamiltonian:multilevel:diagonal", "diagonal elements are not the sums of the molecular level energies", inp, Hd.tolist(), wantd.tolist())
