"""C07 - operator form, tensor form and exact limits of a tensor agree."""
from qvh.core import *
from qvh import systems as SY

DRIVER = "Prop"
PROPS = "QV.Props.C07"


def build_agg(qr, numpy, rng, nmol, ta, T=300.0, uncoupled=False, same_bath=False):
    from quantarhei import Molecule, Aggregate, CorrelationFunction, energy_units
    with energy_units("1/cm"):
        mols = []
        for k in range(nmol):
            m = Molecule([0.0, 12000.0 + rng.randint(-200, 200)])
            cf = CorrelationFunction(ta, dict(ftype="OverdampedBrownian", reorg=rng.choice([20.0, 40.0, 60.0]) if not same_bath else 30.0,
                                              cortime=rng.choice([50.0, 100.0]) if not same_bath else 80.0, T=T, matsubara=20))
            m.set_transition_environment((0, 1), cf)
            mols.append(m)
        agg = Aggregate(mols)
        if not uncoupled:
            for i in range(nmol):
                for j in range(i + 1, nmol):
                    agg.set_resonance_coupling(i, j, rng.choice([30.0, 80.0, -100.0, 150.0]))
    agg.build()
    return agg


def run(ck):
    import numpy
    qr = import_quantarhei()
    from quantarhei import TimeAxis, ReducedDensityMatrix, eigenbasis_of, Hamiltonian
    from quantarhei.qm import ReducedDensityMatrixPropagator, LindbladForm, SystemBathInteraction, Operator
    rng = ck.rng
    ck.rule = ("aggregates of 2-3 sites (Redfield, time independent and time dependent) and random Lindblad forms: the tensor held as operator "
               "components and its explicit four-index twin applied to random non-Hermitian operators and propagated, before and after "
               "convert_2_tensor, inside and outside eigenbasis_of; operator-form propagation vs the rational model fed with the code's K, "
               "Lambda, Lambda^+ (1e-9); time-dependent tensor at t=0 and at the last index vs the time-independent tensor; coarse "
               "propagation axes with partial refinement (stride>1); uncoupled sites vs exp(-iwt-g(t)); non-trivial = coupled system")
    ck.trusted += ["harness/c07.py; model QV/Model/Prop.lean (genOps/genTensor) validated on generated inputs",
                   "the line-shape function g(t) of the analytic comparison is computed by the package's own c2g (double spline integral); "
                   "the comparison tolerance (time-step error) is a test, not a theorem"]
    ck.prove(PROPS, extra_modules=["QV.Drive.Prop"], also=["QV.Props.C07Limits", "QV.Props.C07Basis", "QV.Props.C07Covariant"])
    lines, impl, tol = [], [], []
    cv = lambda a: SY.cvals(numpy, a)

    def emit(l, arr, t=1e-9):
        lines.append(l); impl.append(" | ".join(cv(x) for x in arr)); tol.append(t)

    def randop(n):
        return numpy.array([[rng.randint(-4, 4) / 4.0 + 1j * rng.randint(-4, 4) / 4.0 for _ in range(n)] for _ in range(n)])

    # ---- (a,b) Redfield twins from the API -----------------------------------------------------------
    for s in range(ck.n(3, 14)):
        nmol = rng.choice([2, 3])
        ta = TimeAxis(0.0, ck.n(120, 300), 1.0)
        agg = build_agg(qr, numpy, rng, nmol, ta)
        n = nmol + 1
        inp = {"sites": nmol, "H": numpy.array(agg.get_Hamiltonian().data).tolist()}
        RT_t, ham = agg.get_RelaxationTensor(ta, relaxation_theory="standard_Redfield")
        RT_o, ham2 = agg.get_RelaxationTensor(ta, relaxation_theory="standard_Redfield", as_operators=True)
        ck.case(("twins", s, nmol), nontrivial=True, kind="redfield-twins", sites=nmol, sample=inp if s == 0 else None)
        for ctx in (False, True):
            A = randop(n)
            try:
                if ctx:
                    with eigenbasis_of(ham):
                        va = numpy.array(RT_t.apply(Operator(data=A.copy())).data)
                        vb = numpy.array(RT_o.apply(Operator(data=A.copy())).data)
                else:
                    va = numpy.array(RT_t.apply(Operator(data=A.copy())).data)
                    vb = numpy.array(RT_o.apply(Operator(data=A.copy())).data)
            except Exception as e:
                ck.fail("raises:apply", "apply raised %r" % (e,), dict(inp, in_context=ctx))
                continue
            sc = max(1e-300, numpy.abs(va).max())
            if numpy.abs(va - vb).max() > 1e-9 * max(sc, numpy.abs(numpy.array(RT_t.data)).max()):
                ck.fail("apply:ops-vs-tensor%s" % (":context" if ctx else ""), "operator form and tensor form act differently on an operator",
                        dict(inp, in_context=ctx), float(numpy.abs(va - vb).max()))
        # covariance (Lean: transform_apply / applyOps_transform): acting inside the context on the transformed operand gives the
        # transformed result of acting outside; the operands are transformed by the package itself
        for form_, RT_ in (("tensor", RT_t), ("operators", RT_o)):
            try:
                A = randop(n)
                o_site = Operator(data=A.copy())
                v_site = RT_.apply(o_site)
                v_out = numpy.array(v_site.data)
                with eigenbasis_of(ham):
                    w_in = numpy.array(RT_.apply(o_site).data)
                    v_in = numpy.array(v_site.data)
                v_back = numpy.array(v_site.data)
                sc = max(1e-300, float(numpy.abs(v_out).max()))
                if numpy.abs(w_in - v_in).max() > 1e-9 * max(sc, 1.0):
                    ck.fail("apply:covariance:%s" % form_, "acting inside eigenbasis_of on the transformed operator differs from the transformed result of "
                            "acting outside (%s form)" % form_, dict(inp, A=[[str(z) for z in r] for r in A]), float(numpy.abs(w_in - v_in).max()))
                if numpy.abs(v_back - v_out).max() > 1e-9 * max(sc, 1.0):
                    ck.fail("apply:covariance:restore:%s" % form_, "the result of apply() is not restored after a basis context (%s form)" % form_,
                            dict(inp, A=[[str(z) for z in r] for r in A]), float(numpy.abs(v_back - v_out).max()))
            except Exception as e:
                ck.fail("raises:apply:covariance", "apply inside/outside a basis context raised %r" % (e,), dict(inp, form=form_))
        # apply(..., copy=False): the result is written to the operand; operands with real- and integer-typed data as well
        for dtname, mk_ in (("float", lambda: numpy.array([[float(rng.randint(-4, 4)) for _ in range(n)] for _ in range(n)])),
                            ("int", lambda: numpy.array([[rng.randint(-4, 4) for _ in range(n)] for _ in range(n)], dtype=int)),
                            ("complex", lambda: randop(n))):
            Ad = mk_()
            try:
                oa, ob = Operator(data=Ad.copy()), Operator(data=Ad.copy())
                ra = RT_t.apply(oa, copy=False); rb = RT_o.apply(ob, copy=False)
                va, vb = numpy.array((ra if ra is not None else oa).data), numpy.array((rb if rb is not None else ob).data)
                vref = numpy.tensordot(numpy.array(RT_t.data), Ad.astype(complex))
                scr = max(1e-300, float(numpy.abs(vref).max()))
                if numpy.abs(va - vref).max() > 1e-9 * scr or numpy.abs(vb - vref).max() > 1e-9 * scr:
                    ck.fail("apply:copy-false:%s" % dtname, "apply(A, copy=False) on an operand with %s data: tensor form and operator form do not both give R[A]" % dtname,
                            dict(inp, operand_dtype=dtname), [float(numpy.abs(va - vref).max() / scr), float(numpy.abs(vb - vref).max() / scr)])
            except Exception as e:
                ck.fail("raises:apply:copy-false", "apply(copy=False) raised %r" % (e,), dict(inp, operand_dtype=dtname))
        # propagated dynamics: tensor vs operators vs model
        rho0, _ = SY.rand_state(numpy, rng, n)
        rho0[0, :] = 0; rho0[:, 0] = 0; rho0 = rho0 / numpy.trace(rho0)
        nt, dt, nref = 5, 2.0, rng.choice([1, 2])
        tp = TimeAxis(0.0, nt, dt)
        pt = ReducedDensityMatrixPropagator(tp, ham, RT_t)
        po = ReducedDensityMatrixPropagator(tp, ham2, RT_o)
        # every expansion order the propagator offers (the theorem is for every order): rotate deterministically
        meth, order = (("short-exp", 4), ("short-exp-2", 2), ("short-exp-6", 6), ("short-exp-4", 4))[s % 4]
        dt_ = numpy.array(pt.propagate(ReducedDensityMatrix(data=rho0.copy()), method=meth, Nref=nref).data)
        do_ = numpy.array(po.propagate(ReducedDensityMatrix(data=rho0.copy()), method=meth, Nref=nref).data)
        if numpy.abs(dt_ - do_).max() > 1e-9:
            ck.fail("propagate:ops-vs-tensor", "operator-form and tensor-form propagation differ (method %s)" % meth, dict(inp, method=meth),
                    float(numpy.abs(dt_ - do_).max()))
        # the same pair with an additional pure-dephasing object (Gaussian and Lorentzian): still the same dynamics from both forms
        try:
            from quantarhei.qm import PureDephasing
            gam_ = numpy.zeros((n, n))
            for i_ in range(n):
                for j_ in range(i_ + 1, n):
                    gam_[i_, j_] = gam_[j_, i_] = rng.randint(1, 8) / 256.0
            for dtyp in ("Gaussian", "Lorentzian"):
                pdt = ReducedDensityMatrixPropagator(tp, ham, RT_t, PDeph=PureDephasing(drates=gam_.copy(), dtype=dtyp))
                pdo = ReducedDensityMatrixPropagator(tp, ham2, RT_o, PDeph=PureDephasing(drates=gam_.copy(), dtype=dtyp))
                ddt = numpy.array(pdt.propagate(ReducedDensityMatrix(data=rho0.copy()), method=meth, Nref=nref).data)
                ddo = numpy.array(pdo.propagate(ReducedDensityMatrix(data=rho0.copy()), method=meth, Nref=nref).data)
                if numpy.abs(ddt - ddo).max() > 1e-9:
                    ck.fail("propagate:ops-vs-tensor:pure-dephasing:%s" % dtyp, "operator-form and tensor-form propagation with an additional %s pure-dephasing "
                            "object differ" % dtyp, dict(inp, method=meth, Nref=nref), float(numpy.abs(ddt - ddo).max()))
        except Exception as e:
            ck.fail("raises:propagate:pure-dephasing", "propagation with a pure-dephasing object raised %r" % (e,), inp)
        # model: needs K, L, Ld in the basis in which they are held (the site basis after leaving the context)
        Heff = numpy.array(ham2.get_RWA_data()) if ham2.has_rwa else numpy.array(ham2.data)
        Km, Lm, Ld = numpy.array(RT_o.Km), numpy.array(RT_o.Lm), numpy.array(RT_o.Ld)
        emit("propo %d %d %d %d %s %d %s %s %s %s %s" % (n, order, nref, nt, cfrac(dt), Km.shape[0], cv(Heff), cv(Km), cv(Lm), cv(Ld), cv(rho0)), do_)
        # conversion to a tensor afterwards
        RT_o.convert_2_tensor()
        dev = numpy.abs(numpy.array(RT_o.data) - numpy.array(RT_t.data)).max()
        if dev > 1e-9 * numpy.abs(numpy.array(RT_t.data)).max():
            ck.fail("convert:ops-to-tensor", "convert_2_tensor does not give the tensor built directly", inp, float(dev))
        with eigenbasis_of(ham):
            dev = numpy.abs(numpy.array(RT_o.data) - numpy.array(RT_t.data)).max()
        if dev > 1e-9 * numpy.abs(numpy.array(RT_t.data)).max():
            ck.fail("convert:ops-to-tensor:context", "converted tensor and direct tensor differ inside eigenbasis_of", inp, float(dev))
        # a tensor in operator form whose FIRST use inside a basis context is the conversion itself
        try:
            RT_f, ham_f = agg.get_RelaxationTensor(ta, relaxation_theory="standard_Redfield", as_operators=True)
            with eigenbasis_of(ham_f):
                RT_f.convert_2_tensor()
                d_in = numpy.array(RT_f.data).copy()
                ref_in = numpy.array(RT_t.data).copy()
            d_out = numpy.array(RT_f.data).copy()
            sct = float(numpy.abs(numpy.array(RT_t.data)).max())
            dv_in, dv_out = float(numpy.abs(d_in - ref_in).max()), float(numpy.abs(d_out - numpy.array(RT_t.data)).max())
            if dv_in > 1e-9 * sct or dv_out > 1e-9 * sct:
                ck.fail("convert:ops-to-tensor:first-use-in-context", "an operator-form tensor converted inside eigenbasis_of before anything else was done with it there "
                        "differs from the four-index tensor (inside / after leaving the context)", inp, [dv_in / sct, dv_out / sct])
        except Exception as e:
            ck.fail("raises:convert:first-use-in-context", "convert_2_tensor as first use inside a context raised %r" % (e,), inp)
        # ---- (c,d) time-dependent tensor ----------------------------------------------------------
        TD_t, hamt = agg.get_RelaxationTensor(ta, relaxation_theory="standard_Redfield", time_dependent=True)
        with eigenbasis_of(hamt):
            d0 = numpy.abs(numpy.array(TD_t.data)[0]).max()
            dl = numpy.abs(numpy.array(TD_t.data)[-1] - numpy.array(RT_t.data)).max()
            scl = numpy.abs(numpy.array(RT_t.data)).max()
        if d0 > 1e-12 * scl:
            ck.fail("td:zero-at-start", "time-dependent Redfield tensor does not vanish at time zero", inp, float(d0))
        if dl > 1e-9 * scl:
            ck.fail("td:last-is-ti", "time-dependent tensor at its last time index differs from the time-independent tensor", inp, float(dl), float(1e-9 * scl))
        TD_o, hamo = agg.get_RelaxationTensor(ta, relaxation_theory="standard_Redfield", time_dependent=True, as_operators=True)
        # a recalculation of the same objects (initialize() again, in the eigenbasis as the builder does it): the same operators again
        try:
            L_first = numpy.array(TD_o._Lm).copy()
            for rep_ in range(2):
                hamo.protect_basis()
                try:
                    with eigenbasis_of(hamo):
                        if hasattr(TD_o, "initialize"):
                            TD_o.initialize()
                        else:
                            TD_o._implementation(hamo, TD_o.SystemBathInteraction)
                finally:
                    hamo.unprotect_basis()
            dvL = float(numpy.abs(numpy.array(TD_o._Lm) - L_first).max()) / max(1e-300, float(numpy.abs(L_first).max()))
            if dvL > 1e-9:
                ck.fail("td:reinitialized", "the time-dependent operator form recalculated on the same object differs from its first calculation", inp, dvL)
        except Exception as e:
            ck.extra.setdefault("td_reinitialize_errors", []).append(repr(e)[:160])
        # the same with a cut-off time: defined on the whole axis, constant after the cut-off, last index = time-independent tensor
        # with that cut-off, and usable for propagation beyond the cut-off
        try:
            tcutv = rng.choice([20.0, 35.0])
            TD_c0, hamc0 = agg.get_RelaxationTensor(ta, relaxation_theory="standard_Redfield", time_dependent=True, relaxation_cutoff_time=tcutv)
            RT_c0, _h = agg.get_RelaxationTensor(ta, relaxation_theory="standard_Redfield", relaxation_cutoff_time=tcutv)
            with eigenbasis_of(hamc0):
                dc = numpy.array(TD_c0.data)
                rc = numpy.array(RT_c0.data)
            kc = int(tcutv)
            sclc = numpy.abs(rc).max()
            if dc.shape[0] != ta.length or numpy.abs(dc[kc:] - dc[kc - 1]).max() > 1e-12 * sclc or numpy.abs(dc[-1] - rc).max() > 1e-9 * sclc \
                    or numpy.abs(dc[0]).max() > 1e-12 * sclc:
                ck.fail("td:cutoff", "time-dependent tensor with a cut-off time is not defined on the whole axis / not constant after the cut-off / "
                        "differs at its last index from the time-independent tensor with the same cut-off", dict(inp, cutoff=tcutv),
                        [list(dc.shape), float(numpy.abs(dc[-1] - rc).max())])
            ReducedDensityMatrixPropagator(TimeAxis(0.0, int(tcutv) + 20, 1.0), hamc0, TD_c0).propagate(ReducedDensityMatrix(data=rho0.copy()))
        except Exception as e:
            ck.fail("raises:td:cutoff", "time-dependent tensor with a cut-off time: construction or propagation past the cut-off raised %r" % (e,),
                    dict(inp))
        # coarse propagation axis, partial refinement: stride > 1
        stepc = rng.choice([4.0, 6.0])
        nrefc = rng.choice([1, 2])
        tc = TimeAxis(0.0, 6, stepc)
        pa = ReducedDensityMatrixPropagator(tc, hamt, TD_t)
        da = numpy.array(pa.propagate(ReducedDensityMatrix(data=rho0.copy()), Nref=nrefc).data)
        pb = ReducedDensityMatrixPropagator(tc, hamo, TD_o)
        try:
            db = numpy.array(pb.propagate(ReducedDensityMatrix(data=rho0.copy()), Nref=nrefc).data)
            if numpy.abs(da - db).max() > 1e-9:
                ck.fail("td:propagate:ops-vs-tensor", "time-dependent operator form and tensor form propagate differently (coarse axis)",
                        dict(inp, step=stepc, Nref=nrefc), float(numpy.abs(da - db).max()))
        except Exception as e:
            ck.extra.setdefault("td_ops_propagate_errors", []).append(repr(e)[:160])
        # conversion of the time-dependent operator form, used in another basis afterwards
        try:
            TD_c, hamc = agg.get_RelaxationTensor(ta, relaxation_theory="standard_Redfield", time_dependent=True, as_operators=True)
            TD_c.convert_2_tensor()
            dev_out = numpy.abs(numpy.array(TD_c.data) - numpy.array(TD_t.data)).max()
            with eigenbasis_of(hamc):
                dev_in = numpy.abs(numpy.array(TD_c.data) - numpy.array(TD_t.data)).max()
                B = randop(n)
                act_c = numpy.tensordot(numpy.array(TD_c.data)[-1], B)
                act_t = numpy.tensordot(numpy.array(TD_t.data)[-1], B)
            scl2 = numpy.abs(numpy.array(TD_t.data)).max()
            if dev_out > 1e-9 * scl2:
                ck.fail("td:convert", "converted time-dependent tensor differs from the tensor built directly (site basis)", inp, float(dev_out))
            if dev_in > 1e-9 * scl2 or numpy.abs(act_c - act_t).max() > 1e-9 * max(scl2, 1e-300):
                ck.fail("td:convert:context", "converted time-dependent tensor differs from the directly built one inside eigenbasis_of",
                        inp, float(dev_in))
        except Exception as e:
            ck.fail("raises:td:convert", "convert_2_tensor / basis change of the time-dependent operator form raised %r" % (e,), inp)
        # reference with the tensor sampled at the right times (independent re-implementation of the loop)
        Hc = numpy.array(hamt.get_RWA_data()) if hamt.has_rwa else numpy.array(hamt.data)
        Rtd = numpy.array(TD_t.data)
        stride = int(round(stepc / 1.0)) // nrefc
        dtw = 1.0 * stride
        ref = [rho0.copy()]
        r2 = rho0.copy(); idx = 1
        for i in range(1, 6):
            for j in range(nrefc):
                R = Rtd[idx]
                r1 = r2.copy(); acc = r2.copy()
                for ll in range(1, 5):
                    r1 = -(1j * dtw / ll) * (Hc @ r1 - r1 @ Hc) + (dtw / ll) * numpy.tensordot(R, r1)
                    acc = acc + r1
                r2 = acc
                idx = min(idx + stride, Rtd.shape[0] - 1) if idx < Rtd.shape[0] - 1 else Rtd.shape[0] - 1
            ref.append(r2.copy())
        dev = numpy.abs(numpy.array(ref) - da).max()
        if dev > 1e-9:
            ck.fail("td:propagate:stride", "time-dependent propagation on a coarse axis does not sample the tensor at the elapsed times",
                    dict(inp, step=stepc, Nref=nrefc), float(dev))
    # ---- propagation inside a basis context: every form of the tensor, same dynamics as outside -----------------------------------
    for s3 in range(ck.n(2, 8)):
        nmol = 2
        tb = TimeAxis(0.0, 100, 1.0)
        aggb = build_agg(qr, numpy, rng, nmol, tb)
        n = nmol + 1
        rho0, _ = SY.rand_state(numpy, rng, n)
        rho0[0, :] = 0; rho0[:, 0] = 0; rho0 = rho0 / numpy.trace(rho0)
        tpb = TimeAxis(0.0, 15, 1.0)
        methb = ("short-exp-2", "short-exp-6", "short-exp", "short-exp-4")[s3 % 4]
        ref = {}
        for td in (False, True):
            for ops in (False, True):
                for inside in (False, True):
                    inp = {"sites": nmol, "time_dependent": td, "as_operators": ops, "inside_eigenbasis_of": inside, "method": methb}
                    ck.case(("ctx-prop", s3, td, ops, inside), nontrivial=inside, kind="propagate-in-context")
                    try:
                        T_, h_ = aggb.get_RelaxationTensor(tb, relaxation_theory="standard_Redfield", time_dependent=td, as_operators=ops)
                        rr = ReducedDensityMatrix(data=rho0.copy())
                        pr_ = ReducedDensityMatrixPropagator(tpb, h_, T_)
                        if inside:
                            with eigenbasis_of(h_):
                                ev = pr_.propagate(rr, method=methb)
                        else:
                            ev = pr_.propagate(rr, method=methb)
                        d_ = numpy.array(ev.data)
                    except Exception as e:
                        ck.fail("raises:context:propagate", "propagation raised %r" % (e,), inp)
                        continue
                    if td not in ref:
                        ref[td] = d_
                    dev = float(numpy.abs(d_ - ref[td]).max())
                    ck.resid("propagation inside/outside a basis context, operator/tensor form", dev)
                    if dev > 1e-9:
                        ck.fail("context:propagate:%s:%s" % ("td" if td else "ti", "ops" if ops else "tensor"),
                                "propagated dynamics depend on the form of the tensor or on the basis context", inp, dev)
    # ---- time-dependent tensor on a fine bath axis whose step does not divide the propagation step exactly in binary ---------
    for s2 in range(ck.n(2, 6)):
        nmol = 2
        bs = 0.1
        tfine = TimeAxis(0.0, ck.n(80, 160), bs)
        aggf = build_agg(qr, numpy, rng, nmol, tfine)
        n = nmol + 1
        TD_f, hamf = aggf.get_RelaxationTensor(tfine, relaxation_theory="standard_Redfield", time_dependent=True)
        rho0, _ = SY.rand_state(numpy, rng, n)
        rho0[0, :] = 0; rho0[:, 0] = 0; rho0 = rho0 / numpy.trace(rho0)
        Hc = numpy.array(hamf.get_RWA_data()) if hamf.has_rwa else numpy.array(hamf.data)
        Rtd = numpy.array(TD_f.data)
        for stepc in ((0.3, 0.7) if s2 % 2 == 0 else (0.6, 1.2)):
            inp = {"sites": nmol, "bath_axis_step": bs, "propagation_step": stepc, "ratio_in_floating_point": stepc / bs}
            ck.case(("td-fine", s2, stepc), nontrivial=True, kind="td-noninteger-binary-ratio")
            tc = TimeAxis(0.0, 6, stepc)
            try:
                da = numpy.array(ReducedDensityMatrixPropagator(tc, hamf, TD_f).propagate(ReducedDensityMatrix(data=rho0.copy())).data)
            except Exception as e:
                ck.fail("raises:td:propagate:fine", "propagation raised %r" % (e,), inp)
                continue
            stride = int(round(stepc / bs))
            dtw = bs * stride
            ref = [rho0.copy()]
            r2 = rho0.copy(); idx = 1
            for i in range(1, 6):
                R = Rtd[idx]
                r1 = r2.copy(); acc = r2.copy()
                for ll in range(1, 5):
                    r1 = -(1j * dtw / ll) * (Hc @ r1 - r1 @ Hc) + (dtw / ll) * numpy.tensordot(R, r1)
                    acc = acc + r1
                r2 = acc
                idx = min(idx + stride, Rtd.shape[0] - 1)
                ref.append(r2.copy())
            dev = numpy.abs(numpy.array(ref) - da).max()
            ck.resid("td propagation, non-binary step ratio: vs reference loop", dev)
            if dev > 1e-9:
                ck.fail("td:propagate:stride", "time-dependent propagation on a coarse axis does not sample the tensor at the elapsed times "
                        "(step ratio that is a whole number but not exactly so in floating point)", inp, float(dev))
    # ---- Lindblad twins (random) through the model ----------------------------------------------------
    for h in range(ck.n(10, 120)):
        n = rng.choice([2, 3])
        H = SY.rand_herm(numpy, rng, n)
        Ks, rates = SY.lindblad_ops(numpy, rng, n)
        sbi = SystemBathInteraction([Operator(data=K) for K in Ks], rates=tuple(rates))
        ham = Hamiltonian(data=H.copy())
        Lo = LindbladForm(ham, sbi, as_operators=True)
        Lt = LindbladForm(ham, sbi, as_operators=False)
        A = randop(n)
        va = numpy.array(Lo.apply(Operator(data=A.copy())).data)
        vb = numpy.array(Lt.apply(Operator(data=A.copy())).data)
        inp = {"H": H.tolist(), "K": [k.tolist() for k in Ks], "rates": rates}
        ck.case(("lind", H.tobytes(), tuple(rates)), nontrivial=True, kind="lindblad-twins")
        if numpy.abs(va - vb).max() > 1e-12:
            ck.fail("apply:ops-vs-tensor:lindblad", "Lindblad operator form and tensor form act differently", inp, float(numpy.abs(va - vb).max()))
        with eigenbasis_of(ham):
            wa = numpy.array(Lo.apply(Operator(data=A.copy())).data)
            wb = numpy.array(Lt.apply(Operator(data=A.copy())).data)
        if numpy.abs(wa - wb).max() > 1e-9:
            ck.fail("apply:ops-vs-tensor:lindblad:context", "Lindblad forms act differently inside eigenbasis_of", inp, float(numpy.abs(wa - wb).max()))
    analytic(ck, qr, numpy)
    model = ck.drive(DRIVER, lines)
    if model is not None:
        for l, a, b, t in zip(lines, impl, model, tol):
            ck.traces += 1
            try:
                fa = [cfrac_to_complex(x) for x in a.replace("|", " ").split()]
                fb = [cfrac_to_complex(x) for x in b.replace("|", " ").split()]
                d = max(abs(x - y) for x, y in zip(fa, fb)) if len(fa) == len(fb) and fa else float("inf")
            except Exception:
                d = float("inf")
            ck.resid("max |impl-model| (%s)" % l.split()[0], d if d != float("inf") else 1e300)
            if d > t * max([1.0] + [abs(y) for y in fb] if d != float("inf") else [1.0]):
                ck.disagree("stored states differ by %.3g" % d, l[:200], a[:200], b[:200])
    return ck.finish()


def analytic(ck, qr, numpy):
    """uncoupled sites: rho_0k(t) = rho_0k(0) exp(-i w t - g*(t))-type pure dephasing with the TD tensor"""
    from quantarhei import TimeAxis, ReducedDensityMatrix
    from quantarhei.qm import ReducedDensityMatrixPropagator
    from quantarhei.qm.corfunctions.correlationfunctions import c2g
    rng = ck.rng
    ta = TimeAxis(0.0, ck.n(300, 600), 1.0)
    agg = build_agg(qr, numpy, rng, 2, ta, uncoupled=True)
    n = 3
    prop = agg.get_ReducedDensityMatrixPropagator(ta, relaxation_theory="standard_Redfield", time_dependent=True)
    rho0 = numpy.zeros((n, n), dtype=complex)
    rho0[0, 0] = 0.5; rho0[1, 1] = 0.25; rho0[2, 2] = 0.25; rho0[1, 0] = rho0[0, 1] = 0.3; rho0[2, 0] = rho0[0, 2] = 0.2
    rt = numpy.array(prop.propagate(ReducedDensityMatrix(data=rho0.copy())).data)
    ham = prop.Hamiltonian
    HR = numpy.array(ham.get_RWA_data()) if ham.has_rwa else numpy.array(ham.data)
    sbi = agg.get_SystemBathInteraction()
    worst = 0.0
    for k in (1, 2):
        g = c2g(ta, sbi.CC.get_coft(k - 1, k - 1))
        w = HR[k, k] - HR[0, 0]
        ref = rho0[k, 0] * numpy.exp(-1j * w * ta.data - g)
        worst = max(worst, float(numpy.abs(rt[:, k, 0] - ref).max() / abs(rho0[k, 0])))
    ck.extra["pure_dephasing_relative_error"] = worst
    ck.case(("analytic",), nontrivial=True, kind="analytic")
    if worst > 2e-2:
        ck.fail("td:analytic", "uncoupled sites: TD Redfield propagation does not reproduce exp(-iwt-g(t)) within the time-step error",
                {"H": numpy.array(ham.data).tolist()}, worst, 2e-2)
