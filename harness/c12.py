"""C12 - third-order response: exact orientational average, additivity, symmetry."""
import ast
import io
import copy
import math
import contextlib
from qvh.core import *
from qvh import extract as X

DRIVER = "C12"
PROPS = "QV.Props.C12"


def extract(ck):
    try:
        L = X.lean_list
        tree = ast.parse(X.read_source(REPO, "quantarhei/spectroscopy/labsetup.py"))
        init = X.find_def(tree, "__init__", cls="LabSetup")
        m4 = None
        for n in ast.walk(init):
            if isinstance(n, ast.Assign) and isinstance(n.targets[0], ast.Attribute) and n.targets[0].attr == "M4":
                v = n.value
                if not (isinstance(v, ast.BinOp) and isinstance(v.op, ast.Div)):
                    raise X.ExtractError("M4 is not `array / number`")
                den = ast.literal_eval(v.right)
                rows = ast.literal_eval(v.left.args[0])
                m4 = (rows, den)
        if m4 is None:
            raise X.ExtractError("M4 not found")
        rows, den = m4
        if any(float(x) != int(x) for r in rows for x in r) or float(den) != int(den):
            raise X.ExtractError("M4 entries are not integers over an integer")

        def pairs(func, arr, vec):
            out = {}
            for n in ast.walk(func):
                if isinstance(n, ast.Assign) and isinstance(n.targets[0], ast.Subscript):
                    t = n.targets[0]
                    name = t.value.attr if isinstance(t.value, ast.Attribute) else getattr(t.value, "id", None)
                    if name != arr:
                        continue
                    k = t.slice.value
                    v = n.value
                    if not (isinstance(v, ast.BinOp) and isinstance(v.op, ast.Mult)):
                        raise X.ExtractError("%s[%d] is not a product of two dot products" % (arr, k))
                    pr = []
                    for side in (v.left, v.right):
                        if not (isinstance(side, ast.Call) and getattr(side.func, "attr", "") == "dot" and len(side.args) == 2):
                            raise X.ExtractError("%s[%d]: factor is not numpy.dot(.,.)" % (arr, k))
                        idx = []
                        for a in side.args:
                            if not (isinstance(a, ast.Subscript) and getattr(a.value, "id", None) == vec):
                                raise X.ExtractError("%s[%d]: argument is not %s[n,:]" % (arr, k, vec))
                            idx.append(a.slice.elts[0].value)
                        pr.append(tuple(idx))
                    out[k] = tuple(pr)
            if sorted(out) != [0, 1, 2]:
                raise X.ExtractError("%s has not exactly three components" % arr)
            return [out[k] for k in range(3)]
        pe = pairs(X.find_def(tree, "set_pulse_polarizations", cls="LabSetup"), "F4e", "e")
        dt = ast.parse(X.read_source(REPO, "quantarhei/spectroscopy/diagramatics.py"))
        pn = pairs(X.find_def(dt, "build", cls="liouville_pathway"), "F4n", "d")
        fmt = lambda ps: L(ps, lambda p: "((%d, %d), (%d, %d))" % (p[0][0], p[0][1], p[1][0], p[1][1]))
        body = ("namespace QV.Gen.C12\n"
                "/-- numerators of `LabSetup.M4` row by row and the common denominator -/\n"
                "def m4num : List (List Int) := %s\ndef m4den : Int := %d\n"
                "/-- index pairs `((a,b),(c,d))` of the three products `dot(v[a],v[b])*dot(v[c],v[d])` of `F4e` and `F4n` -/\n"
                "def f4ePairs : List ((Nat × Nat) × (Nat × Nat)) := %s\ndef f4nPairs : List ((Nat × Nat) × (Nat × Nat)) := %s\n"
                "end QV.Gen.C12\n") % (L(rows, lambda r: L(r, lambda x: str(int(x)))), int(den), fmt(pe), fmt(pn))
    except (X.ExtractError, Exception) as e:
        return ck.tie_fallback("C12", "extraction of M4 / the pairings failed: %r" % e)
    ck.gen("C12", body, facts=True)
    return True


def run(ck):
    import numpy as np
    qr = import_quantarhei()
    from quantarhei.spectroscopy.mocktwodcalculator import MockTwoDResponseCalculator
    from quantarhei import signal_TOTL, signal_REPH, signal_NONR
    rng = ck.rng
    ck.rule = ("dimers and trimers of two-level molecules built with two-exciton states (couplings 0 or 40-150 1/cm, different widths per "
               "molecule, Lindblad relaxation or none, waiting times 0-40 fs) with MockTwoDResponseCalculator: (a) pref of EVERY Liouville "
               "pathway for random polarisation four-tuples (laboratory axes, tilted and non-orthogonal unit vectors) compared with the Lean "
               "model on the pathway's own dipoles, sign, population and evolution factor (1e-12 relative) and with an independent "
               "quadrature over SO(3) that is exact for degree-4 polynomials (8 x 8 Gauss x 8 Euler angles, 1e-12); (b) spectra under "
               "total / rephasing / non-rephasing flags: common rotation or reflection of all dipoles, of all polarisations (1e-10), "
               "common dipole factor s -> s^4, total = rephasing + non-rephasing (1e-12), uncoupled aggregate = sum of its molecules "
               "(1e-9), polarisation scan on ONE lab and calculator vs fresh objects; non-trivial = case with >= 2 distinct pairings "
               "contributing or unequal widths")
    ck.trusted += ["harness/c12.py + AST extractor of LabSetup.M4 and of the index pairings of F4e (labsetup.py) and F4n (diagramatics.py)",
                   "hand model QV/Model/C12.lean of the prefactor; the pathway generation (which pathways exist, their frequencies and line "
                   "shapes) is not modelled: additivity, rotation, scaling and total = R + NR of the SPECTRA are checked on the implementation",
                   "orientational_average / pref_is_orientational_average hold for every averaging functional that is linear, normalised, blind "
                   "outside the orthogonal matrices and invariant under three explicit rotations from both sides; that the average over all "
                   "orientations (Haar average of SO(3)) exists and has these properties is classical and not constructed in Lean"]
    extract(ck)
    ck.prove(PROPS, extra_modules=["QV.Drive.C12"], also=["QV.Props.C12Weyl", "QV.Props.C12Average", "QV.Props.C12Pref", "QV.Props.C12Design", "QV.Props.C12DesignT8", "QV.Props.C12Widths", "QV.Props.C12Multilinear"])
    X3, Y3, Z3 = np.eye(3)
    quiet = lambda: contextlib.redirect_stdout(io.StringIO())

    # quadrature on SO(3), exact for polynomials of degree <= 4 in the matrix elements
    na = 8
    al = 2.0 * np.pi * np.arange(na) / na
    xb, wb = np.polynomial.legendre.leggauss(8)
    ROTS = []
    for a in al:
        Ra = np.array([[np.cos(a), -np.sin(a), 0], [np.sin(a), np.cos(a), 0], [0, 0, 1.0]])
        for cb, w in zip(xb, wb):
            sb = np.sqrt(1.0 - cb * cb)
            Rb = np.array([[cb, 0, sb], [0, 1.0, 0], [-sb, 0, cb]])
            for g in al:
                Rg = np.array([[np.cos(g), -np.sin(g), 0], [np.sin(g), np.cos(g), 0], [0, 0, 1.0]])
                ROTS.append((w / (2.0 * na * na), Ra @ Rb @ Rg))
    RW = np.array([w for w, _ in ROTS]); RM = np.array([R for _, R in ROTS])

    def exact_average(e, d):
        p = np.ones(len(RW))
        for k in range(4):
            p = p * np.einsum("i,nij,j->n", e[k], RM, d[k])
        return float(np.dot(RW, p))

    def rand_unit():
        v = np.array([rng.gauss(0, 1) for _ in range(3)])
        return v / np.linalg.norm(v)

    def rand_rot(improper=False):
        A = np.array([[rng.gauss(0, 1) for _ in range(3)] for _ in range(3)])
        Q, R = np.linalg.qr(A)
        Q = Q @ np.diag(np.sign(np.diag(R)))
        if (np.linalg.det(Q) < 0) != improper:
            Q[:, 0] = -Q[:, 0]
        return Q

    def build(energies, dipoles, widths, couplings, dephs=None):
        mols = []
        with qr.energy_units("1/cm"):
            for k_, (en, dd, ww) in enumerate(zip(energies, dipoles, widths)):
                m = qr.Molecule([0.0, en])
                if dephs is None:
                    m.set_transition_width((0, 1), ww)
                else:
                    m.set_transition_dephasing((0, 1), dephs[k_])      # Lorentzian line shapes use the dephasing rates
                m.set_dipole(0, 1, list(dd))
                mols.append(m)
        agg = qr.Aggregate(molecules=mols)
        n = len(mols)
        with qr.energy_units("1/cm"):
            for i in range(n):
                for j in range(i + 1, n):
                    agg.set_resonance_coupling(i, j, couplings.get((i, j), 0.0))
        agg1 = copy.copy(agg)
        agg1.build(mult=1)
        agg.build(mult=2)
        agg.diagonalize()
        return agg, agg1

    t2_axis = qr.TimeAxis(0.0, 5, 10.0)
    t1_axis = qr.TimeAxis(0.0, ck.n(40, 60), 10.0)
    t3_axis = qr.TimeAxis(0.0, ck.n(40, 60), 10.0)

    def evolution(agg1, relax):
        H = agg1.get_Hamiltonian()
        if relax and H.dim > 2:
            with qr.eigenbasis_of(H):
                K = qr.qm.ProjectionOperator(1, 2, dim=H.dim)
            rate = 1.0 / 200.0
        else:
            K = qr.qm.ProjectionOperator(0, 1, dim=H.dim)
            rate = 0.0
        sbi = qr.qm.SystemBathInteraction(sys_operators=[K], rates=[rate])
        Lf = qr.qm.LindbladForm(H, sbi)
        eUt = qr.EvolutionSuperOperator(time=t2_axis, ham=H, relt=Lf)
        eUt.set_dense_dt(10)
        with quiet():
            eUt.calculate(show_progress=False)
        return eUt

    def make_calc(shape="Gaussian"):
        calc = MockTwoDResponseCalculator(t1_axis, t2_axis, t3_axis)
        with qr.energy_units("1/cm"):
            with quiet():
                calc.bootstrap(rwa=12100.0, shape=shape)
        return calc

    def response(agg, eUt, pol, t2, calc=None, lab=None, pways=None):
        calc = calc or make_calc()
        if lab is None:
            lab = qr.LabSetup()
        lab.set_pulse_polarizations(pulse_polarizations=pol[:3], detection_polarization=pol[3])
        with quiet():
            tw = calc.calculate_one_system(t2, agg, eUt, lab, pways=pways)
        out = {}
        for st in (signal_TOTL, signal_REPH, signal_NONR):
            tw.set_data_flag(st)
            out[st] = np.array(tw.d__data)
        return out, lab

    lines, impl = [], []
    nsys = ck.n(4, 16)
    for s in range(nsys):
        n = 2 if (ck.quick or rng.random() < 0.6) else 3
        if s == 1:
            n = 3                 # an uncoupled trimer: its eigenvector matrix is a permutation that is not symmetric
        energies = [12100.0 + rng.randint(-250, 250) for _ in range(n)]
        if s == 1:
            energies = [12285.0 + rng.randint(-20, 20), 12038.0 + rng.randint(-20, 20), 12176.0 + rng.randint(-20, 20)]
        dipoles = [[rng.uniform(-1, 1) for _ in range(3)] for _ in range(n)]
        if s % 4 in (2, 3):
            # hand-written directions as scripts use them: components that add up to zero, axis-parallel, in a coordinate plane
            special = [[1.0, -1.0, 0.0], [1.0, 1.0, -2.0], [0.0, 1.0, -1.0], [2.0, -1.0, -1.0], [0.0, 0.0, 1.0], [-1.0, 0.0, 1.0]]
            dipoles = [list(map(float, special[(s + k_) % len(special)])) for k_ in range(n)]
        widths = rng.sample([100.0, 150.0, 220.0, 300.0], n)            # a different width on every molecule
        if s % 4 == 3:
            energies[1] = energies[0]          # two different pigments absorbing at exactly the same energy (widths differ)
        coupled = s % 2 == 0
        couplings = {(i, j): rng.choice([40.0, -90.0, 150.0]) for i in range(n) for j in range(i + 1, n)} if coupled else {}
        relax = coupled and rng.random() < 0.5
        t2 = rng.choice([0.0, 10.0, 20.0, 40.0])
        if not coupled and s % 4 == 1:
            t2 = rng.choice([10.0, 20.0, 40.0])      # additivity at a waiting time > 0 in every run (coherences evolve during t2)
        pols = [(X3, X3, X3, X3), (X3, X3, Y3, Y3), (X3, Y3, X3, Y3), (X3, Y3, Y3, X3),
                (X3, Y3, (X3 + Y3) / math.sqrt(2.0), 0.6 * X3 + 0.8 * Z3), tuple(rand_unit() for _ in range(4))]
        pol = pols[s % len(pols)] if not ck.quick else pols[(2 * s + 1) % len(pols)]
        if s % 4 == 2:
            # polarisation vectors as they are written down: X+Y for 45 degrees, amplitudes folded in (the average is linear in each of them)
            pol = (X3, X3 + Y3, 0.5 * Y3 + 0.0 * X3, 2.0 * X3 - 1.0 * Z3)
        sysinp = {"sites": n, "energies_cm": energies, "dipoles": dipoles, "widths_cm": widths, "couplings_cm": {"%d-%d" % k: v for k, v in couplings.items()},
                  "relaxation": relax, "t2": t2, "polarisations": [list(map(float, p)) for p in pol]}
        try:
            agg, agg1 = build(energies, dipoles, widths, couplings)
            eUt = evolution(agg1, relax)
            pw = {}
            base, lab = response(agg, eUt, pol, t2, pways=pw)
        except Exception as e:
            ck.fail("raises:response", "calculation of the response raised %r" % (e,), sysinp)
            continue
        scale = float(np.abs(base[signal_TOTL]).max()) or 1.0
        pws = pw[str(t2)]
        ck.case(("system", s), nontrivial=(len(set(widths)) > 1 or coupled), kind="response", sites=n, coupled=coupled, relaxation=relax,
                pathways=len(pws), sample=sysinp if s == 0 else None)
        # ---- (a) prefactors of all pathways ---------------------------------------------------------------------------------
        e = [np.array(pol[k], dtype=float) for k in range(4)]       # the four-tuple that was handed to the lab
        for ip, p in enumerate(pws):
            d = [np.array(p.dmoments[k, :], dtype=float) for k in range(4)]
            n0 = p.transitions[0, 1]
            rho0 = float(np.real(p.aggregate.rho0[n0, n0]))
            sign = float(np.prod(p.sides))
            ev = complex(p.evolfac)
            # the evolution factor can be complex: the model gets its real and imaginary part in two lines
            for part, evp in (("re", ev.real), ("im", ev.imag)):
                if part == "im" and evp == 0.0:
                    continue
                lines.append("pref %s %s %s %s %s" % (frac(sign), frac(rho0), frac(evp), " ".join(frac(x) for v in e for x in v),
                                                     " ".join(frac(x) for v in d for x in v)))
                impl.append((dict(sysinp, pathway=ip, ptype=str(getattr(p, "pathway_type", getattr(p, "ptype", "?"))), part=part),
                             complex(p.pref).real if part == "re" else complex(p.pref).imag))
            want = sign * exact_average(e, d) * rho0 * ev
            refsc = max(abs(ev) * rho0 * float(np.prod([np.linalg.norm(x) for x in d])) * float(np.prod([np.linalg.norm(x) for x in e])), 1e-300)
            dev = abs(complex(p.pref) - want) / refsc
            ck.resid("pathway prefactor vs SO(3) quadrature (relative to |d|^4)", dev)
            if dev > 1e-12:
                ck.fail("average:pref", "orientational prefactor of a pathway differs from the average over all orientations of the four "
                        "field-dipole projections", dict(sysinp, pathway=ip, dmoments=[list(map(float, x)) for x in d]), complex(p.pref), want)
        # ---- (b) spectra ----------------------------------------------------------------------------------------------------------
        tot = np.abs(base[signal_TOTL] - base[signal_REPH] - base[signal_NONR]).max() / scale
        ck.resid("total - rephasing - non-rephasing", tot)
        if tot > 1e-12:
            ck.fail("sum:total", "total signal is not the sum of the rephasing and the non-rephasing part", sysinp, float(tot))
        kind = s % 4
        try:
            if kind in (0, 2):
                Q = rand_rot(improper=(s % 8 == 2))
                agg_r, agg1_r = build(energies, [list(Q @ np.array(dv)) for dv in dipoles], widths, couplings)
                r1, _ = response(agg_r, evolution(agg1_r, relax), pol, t2)
                r2, _ = response(agg, eUt, tuple(Q @ np.array(pv) for pv in pol), t2)
                for nm, r in (("dipoles", r1), ("polarisations", r2)):
                    for st in (signal_TOTL, signal_REPH, signal_NONR):
                        dev = float(np.abs(r[st] - base[st]).max() / scale)
                        ck.resid("rotation of all %s" % nm, dev)
                        if dev > 1e-10:
                            ck.fail("rotation:%s" % nm, "response changes under a common rotation of all %s" % nm,
                                    dict(sysinp, Q=Q.tolist(), signal=str(st)), dev)
            if kind in (1, 3):
                # an ordinary factor and an extreme one (nothing in the statement restricts the size of the dipoles)
                for sc in (rng.choice([0.5, 1.7, -2.0]), rng.choice([1.0e-3, 3.0e-3]), 40.0):
                    agg_s, agg1_s = build(energies, [[sc * x for x in dv] for dv in dipoles], widths, couplings)
                    r3, _ = response(agg_s, evolution(agg1_s, relax), pol, t2)
                    for st in (signal_TOTL, signal_REPH, signal_NONR):
                        dev = float(np.abs(r3[st] - sc ** 4 * base[st]).max() / (sc ** 4 * scale))
                        ck.resid("fourth-power scaling", dev)
                        if dev > 1e-10:
                            ck.fail("scaling", "response does not scale with the fourth power of a common dipole factor",
                                    dict(sysinp, factor=sc, signal=str(st)), dev)
            if not coupled:
                parts = None
                for k in range(n):
                    a_k, a1_k = build([energies[k]], [dipoles[k]], [widths[k]], {})
                    r, _ = response(a_k, evolution(a1_k, False), pol, t2)
                    parts = r if parts is None else {st: parts[st] + r[st] for st in parts}
                for st in (signal_TOTL, signal_REPH, signal_NONR):
                    dev = float(np.abs(base[st] - parts[st]).max() / (np.abs(parts[signal_TOTL]).max() or 1.0))
                    ck.resid("uncoupled aggregate vs sum of molecules", dev)
                    if dev > 1e-9:
                        ck.fail("additivity", "response of an aggregate of uncoupled molecules differs from the sum of the responses of the "
                                "molecules (excited-state absorption does not cancel the cross peaks)", dict(sysinp, signal=str(st)), dev)
            if not coupled:
                # the same with Lorentzian line shapes (dephasing rates instead of Gaussian widths), equal and unequal rates
                for tag, dph in (("equal-rates", [0.01] * n), ("unequal-rates", [0.01 / (1 + 2 * k_) for k_ in range(n)])):
                    agg_l, agg1_l = build(energies, dipoles, widths, {}, dephs=dph)
                    bl, _ = response(agg_l, evolution(agg1_l, False), pol, t2, calc=make_calc("Lorentzian"))
                    pl = None
                    for k in range(n):
                        a_k, a1_k = build([energies[k]], [dipoles[k]], [widths[k]], {}, dephs=[dph[k]])
                        r, _ = response(a_k, evolution(a1_k, False), pol, t2, calc=make_calc("Lorentzian"))
                        pl = r if pl is None else {st: pl[st] + r[st] for st in pl}
                    dev = max(float(np.abs(bl[st] - pl[st]).max()) for st in bl) / (float(np.abs(pl[signal_TOTL]).max()) or 1.0)
                    ck.resid("uncoupled aggregate vs sum of molecules, Lorentzian shapes (%s)" % tag, dev)
                    ck.case(("lorentz", s, tag), nontrivial=True, kind="additivity-lorentzian", rates=tag)
                    if dev > 1e-9:
                        ck.fail("additivity:lorentzian:%s" % tag, "with Lorentzian line shapes the response of uncoupled molecules differs from the "
                                "sum of the responses of the molecules", dict(sysinp, dephasing_rates=dph), dev)
        except Exception as e:
            ck.fail("raises:variant", "calculation of a transformed system raised %r" % (e,), sysinp)
        # ---- prior use of the aggregate: another initial state was requested from it before the response is calculated -----------------------
        if s % 2 == 1:
            try:
                for cond_ in ("impulsive_excitation", "thermal_excited_state"):
                    agg_h, agg1_h = build(energies, dipoles, widths, couplings)
                    eUt_h = evolution(agg1_h, relax)
                    try:
                        agg_h.get_DensityMatrix(condition_type=cond_, temperature=300.0) if cond_ != "impulsive_excitation" else agg_h.get_DensityMatrix(condition_type=cond_)
                    except Exception:
                        continue
                    r_h, _ = response(agg_h, eUt_h, pol, t2)
                    dev = max(float(np.abs(r_h[st] - base[st]).max()) for st in (signal_TOTL, signal_REPH, signal_NONR)) / scale
                    ck.resid("response after another initial state was requested from the aggregate", dev)
                    ck.case(("prior-state", s, cond_), nontrivial=True, kind="history")
                    if dev > 1e-10:
                        ck.fail("history:prior-initial-state", "the response of an aggregate from which get_DensityMatrix(%r) was requested before differs from the response "
                                "of a freshly built one" % cond_, dict(sysinp, prior_request=cond_), dev)
            except Exception as ex:
                ck.fail("raises:prior-initial-state", "raised %r" % (ex,), sysinp)
        # ---- polarisation scan on one lab and one calculator --------------------------------------------------------------------------
        if s % 3 == 0:
            calc = make_calc()
            lab1 = qr.LabSetup()
            scan = [pols[0], pols[1], pols[2], pols[4]]
            for isc, pl in enumerate(scan):
                try:
                    pw1 = {}
                    r_same, _ = response(agg, eUt, pl, t2, calc=calc, lab=lab1, pways=pw1)
                    r_fresh, _ = response(agg, eUt, pl, t2)
                    dev = float(np.abs(r_same[signal_TOTL] - r_fresh[signal_TOTL]).max() / (np.abs(r_fresh[signal_TOTL]).max() or 1.0))
                    ck.resid("polarisation scan on one calculator vs fresh objects", dev)
                    if dev > 1e-10:
                        ck.fail("history:polarisation-scan", "response after set_pulse_polarizations on a lab that was used before differs from "
                                "the response with fresh objects", dict(sysinp, scan_step=isc, polarisations=[list(map(float, p)) for p in pl]), dev)
                    e1 = [np.array(lab1.e[k, :], dtype=float) for k in range(4)]
                    for p in pw1[str(t2)]:
                        d = [np.array(p.dmoments[k, :], dtype=float) for k in range(4)]
                        n0 = p.transitions[0, 1]
                        want = float(np.prod(p.sides)) * exact_average(e1, d) * float(np.real(p.aggregate.rho0[n0, n0])) * complex(p.evolfac)
                        if abs(complex(p.pref) - want) > 1e-12 * max(abs(want), float(np.prod([np.linalg.norm(x) for x in d]))):
                            ck.fail("history:pref", "pathway prefactor does not belong to the polarisations set on the lab", dict(sysinp, scan_step=isc))
                            break
                except Exception as ex:
                    ck.fail("raises:scan", "polarisation scan raised %r" % (ex,), sysinp)
            ck.case(("scan", s), nontrivial=True, kind="scan")

    # ---- random four-tuples straight through LabSetup / liouville_pathway formulas vs quadrature (no response needed) -----------------
    lab = qr.LabSetup()
    for trial in range(ck.n(40, 400)):
        mode = trial % 4
        e = [rand_unit() for _ in range(4)] if mode else [rng.choice([X3, Y3, Z3]) for _ in range(4)]
        if trial % 8 == 5:
            # vectors of any length: the average is the one of the four-tuple that was given (linear in each vector)
            e = [rng.choice([0.5, 2.0, 1.0, 3.0]) * v for v in e] if trial % 16 == 5 else [X3 + Y3, 0.5 * Y3, 2.0 * X3, X3 - Z3]
        d = [np.array([rng.uniform(-2, 2) for _ in range(3)]) for _ in range(4)]
        if mode == 2:
            d[1] = d[0].copy(); d[3] = d[2].copy()
        lab.set_pulse_polarizations(pulse_polarizations=e[:3], detection_polarization=e[3])
        F4n = np.array([np.dot(d[3], d[2]) * np.dot(d[1], d[0]), np.dot(d[3], d[1]) * np.dot(d[2], d[0]), np.dot(d[3], d[0]) * np.dot(d[2], d[1])])
        got = float(np.dot(lab.F4eM4, F4n))
        want = exact_average(e, d)
        sc = float(np.prod([np.linalg.norm(x) for x in d])) * float(np.prod([np.linalg.norm(x) for x in e]))
        ck.case(("tuple", trial), nontrivial=True, kind="four-tuple", unit_vectors=bool(trial % 8 != 5))
        ck.resid("F4eM4.F4n vs SO(3) quadrature", abs(got - want) / sc)
        if abs(got - want) > 1e-12 * sc:
            ck.fail("average:labsetup", "F4e.M4.F4n differs from the average over all orientations", {"e": [list(map(float, x)) for x in e],
                    "d": [list(map(float, x)) for x in d]}, got, want)
        lines.append("pref 1 1 1 %s %s" % (" ".join(frac(x) for v in e for x in v), " ".join(frac(x) for v in d for x in v)))
        impl.append(({"four_tuple": trial}, got))

    # ---- the width / dephasing blocks that diagonalize() builds for aggregates with two-exciton states vs the Lean model --------------
    wlines, wimpl = [], []
    for trial in range(ck.n(6, 40)):
        n = 2 if trial % 3 == 0 else 3
        lorentz = (trial % 2 == 1)
        energies = [12000.0 + 150.0 * k + rng.randint(-60, 60) for k in range(n)]
        dipoles = [rand_unit() for _ in range(n)]
        vals = [rng.choice([60.0, 100.0, 150.0, 220.0]) if not lorentz else rng.choice([0.002, 0.0033, 0.01, 0.02]) for _ in range(n)]
        coup = {(i, j): (0.0 if trial % 5 in (1, 4) else rng.choice([50.0, -120.0, 200.0])) for i in range(n) for j in range(i + 1, n)}
        winp = {"sites": n, "energies": energies, "couplings": {"%d-%d" % k: v for k, v in coup.items()}, ("dephasing_rates" if lorentz else "widths_cm"): vals,
                "shape": "Lorentzian" if lorentz else "Gaussian"}
        try:
            agg, _ = build(energies, dipoles, vals if not lorentz else [100.0] * n, coup, dephs=(vals if lorentz else None))
            N1 = int(agg.Nb[0] + agg.Nb[1]); Ntot = int(agg.Ntot); M = Ntot - N1
            SS = np.array(agg.SS, dtype=float)
            S1 = SS[:N1, :N1]; S2 = SS[N1:, N1:]
            if lorentz:
                w = [0.0] + [float(m_.get_transition_dephasing((0, 1))) for m_ in agg.monomers]
                Dr = np.array(agg.Dr, dtype=float)
                one = np.diag(Dr)[:N1] ** 2; two = np.diag(Dr)[N1:]; crs = Dr[N1:, :N1]
            else:
                w = [0.0] + [float(m_.get_transition_width((0, 1))) for m_ in agg.monomers]
                Wd = np.array(agg.Wd, dtype=float)
                one = np.diag(Wd)[:N1] ** 2; two = np.diag(Wd)[N1:] ** 2; crs = Wd[N1:, :N1] ** 2
            tw = [(int(agg.twoex_indx[N1 + K, 0]), int(agg.twoex_indx[N1 + K, 1])) for K in range(M)]
        except Exception as ex:
            ck.fail("raises:width-blocks", "building / diagonalising the aggregate raised %r" % (ex,), winp)
            continue
        ck.case(("width-blocks", trial), nontrivial=any(v != 0.0 for v in coup.values()), kind="width-blocks")
        wlines.append("widths %d %d %s %s %s %s" % (N1, M, " ".join(frac(x) for x in S1.flatten()), " ".join(frac(x) for x in S2.flatten()),
                                                 " ".join(frac(x) for x in w), " ".join("%d %d" % t_ for t_ in tw)))
        wimpl.append((winp, np.concatenate([one, two, crs.flatten()])))
        # the getter for every 1 -> 2 transition: g_ee + g_ff - 2 g_fe of those blocks, and for uncoupled molecules the value of the
        # molecule that is being excited (theorems uncoupled_first / uncoupled_second)
        getter = agg.get_transition_dephasing if lorentz else agg.get_transition_width
        for K in range(M):
            for a in range(1, N1):
                try:
                    gv = float(getter((N1 + K, a)))
                except Exception as ex:
                    ck.fail("raises:width-getter", "transition width / dephasing getter raised %r" % (ex,), dict(winp, transition=[N1 + K, a]))
                    continue
                want = one[a] + two[K] - 2.0 * crs[K, a]
                if abs(gv - want) > 1e-12 * max(1e-300, abs(want), float(np.abs(one).max())):
                    ck.fail("width-getter:%s" % winp["shape"], "width / dephasing of a 1->2 transition is not g_ee + g_ff - 2 g_fe of the blocks built by diagonalize",
                            dict(winp, transition=[N1 + K, a]), gv, float(want))
                if all(v == 0.0 for v in coup.values()) and a in tw[K]:
                    other = tw[K][1] if a == tw[K][0] else tw[K][0]
                    if abs(gv - w[other]) > 1e-9 * abs(w[other]):
                        ck.fail("width-uncoupled:%s" % winp["shape"], "uncoupled molecules: the 1->2 transition that excites molecule %d does not carry that "
                                "molecule's width / dephasing rate" % other, dict(winp, transition=[N1 + K, a]), gv, w[other])
    wout = ck.drive(DRIVER, wlines) if wlines else []
    if wout is not None:
        for (winp, got), o in zip(wimpl, wout):
            ck.traces += 1
            try:
                mv = np.array([float(parse_frac(x)) for x in o.replace("|", " ").split()])
            except Exception:
                ck.disagree("model output unreadable (widths)", winp, None, o[:100]); continue
            if mv.shape != got.shape:
                ck.disagree("width blocks: shape", winp, list(got.shape), list(mv.shape)); continue
            dv = float(np.abs(mv - got).max()); scw = float(np.abs(mv).max()) or 1.0
            ck.resid("width/dephasing blocks of diagonalize vs model (relative)", dv / scw)
            if dv > 1e-10 * scw:
                ck.disagree("width / dephasing blocks built by diagonalize differ from the model", winp, got.tolist(), mv.tolist())

    out = ck.drive(DRIVER, lines)
    if out is not None:
        for (inp, got), o in zip(impl, out):
            try:
                m = float(parse_frac(o))
            except Exception:
                ck.disagree("model output unreadable", inp, got, o[:100])
                continue
            tol = 1e-12 * max(abs(m), 1e-300) + 1e-15
            ck.resid("model vs pref (absolute)", abs(m - got))
            if abs(m - got) > 1e-11 * max(abs(m), abs(got), 1e-6):
                ck.disagree("pathway prefactor", inp, got, m)
    return ck.finish()
