import QV.Props.C17
import QV.Lemmas.Bridge
import Mathlib.Data.Nat.Choose.Sum
import Mathlib.Data.Nat.Choose.Cast
import Mathlib.Data.Real.Basic
import Mathlib.Algebra.Algebra.Basic
import Mathlib.Algebra.BigOperators.GroupWithZero.Action
import Mathlib.Algebra.Order.BigOperators.Group.Finset
import Mathlib.Algebra.Ring.Parity
import Mathlib.Data.Matrix.Mul
import Mathlib.Data.Matrix.Basic
import Mathlib.Tactic.Ring
import Mathlib.Tactic.FieldSimp
import Mathlib.Tactic.Positivity
import Mathlib.Tactic.Linarith

/-!
# C17 — populations stay non-negative, for every expansion order
If the off-diagonal rates are non-negative and the elementary step satisfies `dt · s ≤ 1` for a bound `s` on the depopulation
rates (`−K_jj ≤ s`), then the order-`L` short-exponential step maps non-negative populations to non-negative
populations, for every `L`; hence every stored point of `PopulationPropagator.propagate`.

Route: the step is multiplication by `Σ_{k≤L} (dt·K)^k/k!`.  With `A = dt·K + x·1` (`x = dt·s`), which is entrywise
non-negative, that polynomial equals `Σ_m (e_{L−m}(−x)/m!) · A^m` with `e_j(t) = Σ_{i≤j} t^i/i!` (binomial regrouping), and
`e_j(−x) ≥ 0` for `0 ≤ x ≤ 1` (alternating sum of decreasing terms).
-/
namespace QV.C17
open QV Finset Matrix

section algebra
variable {R : Type} [Ring R] [Algebra ℝ R]

theorem binom_scaled (a : R) (t : ℝ) (n : ℕ) :
    ((n.factorial : ℝ)⁻¹) • (a + t • (1 : R)) ^ n
      = ∑ m ∈ range (n + 1), ((m.factorial : ℝ)⁻¹ * (t ^ (n - m) / (n - m).factorial)) • a ^ m := by
  have hc : Commute a (t • (1 : R)) := (Commute.one_right a).smul_right t
  rw [hc.add_pow, Finset.smul_sum]
  refine Finset.sum_congr rfl (fun m hm => ?_)
  have hmn : m ≤ n := Nat.lt_succ_iff.mp (mem_range.mp hm)
  have e1 : a ^ m * (t • (1 : R)) ^ (n - m) * ((n.choose m : ℕ) : R)
      = ((t ^ (n - m)) * (n.choose m : ℝ)) • a ^ m := by
    rw [smul_pow, one_pow, mul_smul_comm, mul_one, mul_smul, smul_mul_assoc]
    congr 1
    rw [← Nat.cast_comm, Algebra.smul_def, map_natCast]
  rw [e1, smul_smul]
  congr 1
  rw [Nat.cast_choose ℝ hmn]
  have h1 : (n.factorial : ℝ) ≠ 0 := by positivity
  have h2 : (m.factorial : ℝ) ≠ 0 := by positivity
  have h3 : ((n - m).factorial : ℝ) ≠ 0 := by positivity
  field_simp

/-- truncated exponential series in an algebra and in the reals -/
noncomputable def Etr (L : ℕ) (y : R) : R := ∑ k ∈ range (L + 1), ((k.factorial : ℝ)⁻¹) • y ^ k
noncomputable def etr (L : ℕ) (t : ℝ) : ℝ := ∑ k ∈ range (L + 1), t ^ k / k.factorial

theorem etr_succ (L : ℕ) (t : ℝ) : etr (L + 1) t = etr L t + t ^ (L + 1) / (L + 1).factorial := by
  unfold etr; rw [Finset.sum_range_succ]

/-- the truncated exponential of `a + t` regrouped by powers of `a` -/
theorem Etr_shift (a : R) (t : ℝ) (L : ℕ) :
    Etr L (a + t • (1 : R)) = ∑ m ∈ range (L + 1), ((m.factorial : ℝ)⁻¹ * etr (L - m) t) • a ^ m := by
  induction L with
  | zero => simp [Etr, etr]
  | succ L ih =>
    have hE : Etr (L + 1) (a + t • (1 : R)) = Etr L (a + t • (1 : R))
        + (((L + 1).factorial : ℝ)⁻¹) • (a + t • (1 : R)) ^ (L + 1) := by
      unfold Etr; rw [Finset.sum_range_succ]
    rw [hE, ih, binom_scaled]
    rw [Finset.sum_range_succ (fun m => ((m.factorial : ℝ)⁻¹ * etr (L + 1 - m) t) • a ^ m) (L + 1)]
    rw [Finset.sum_range_succ (fun m => ((m.factorial : ℝ)⁻¹ * (t ^ (L + 1 - m) / (L + 1 - m).factorial)) • a ^ m) (L + 1)]
    rw [← add_assoc, ← Finset.sum_add_distrib]
    congr 1
    · refine Finset.sum_congr rfl (fun m hm => ?_)
      have hmL : m ≤ L := Nat.lt_succ_iff.mp (mem_range.mp hm)
      have : L + 1 - m = (L - m) + 1 := by omega
      rw [this, etr_succ, ← add_smul]
      congr 1
      ring
    · simp [etr]
end algebra

/-! ## the alternating partial sums are non-negative on `[0, 1]` -/

theorem etr_neg_odd_nonneg (x : ℝ) (h0 : 0 ≤ x) (h1 : x ≤ 1) : ∀ k : ℕ, 0 ≤ etr (2 * k + 1) (-x) := by
  intro k
  induction k with
  | zero =>
    have : etr 1 (-x) = 1 - x := by simp [etr, Finset.sum_range_succ]; ring
    rw [this]; linarith
  | succ k ih =>
    have e : 2 * (k + 1) + 1 = (2 * k + 1) + 1 + 1 := by ring
    rw [e, etr_succ, etr_succ]
    have he : Even (2 * k + 1 + 1) := ⟨k + 1, by ring⟩
    have ho : Odd (2 * k + 1 + 1 + 1) := ⟨k + 1, by ring⟩
    rw [he.neg_pow, ho.neg_pow]
    have hf : ((2 * k + 1 + 1 + 1).factorial : ℝ) = ((2 * k + 1 + 1 + 1 : ℕ) : ℝ) * (2 * k + 1 + 1).factorial := by
      rw [Nat.factorial_succ (2 * k + 1 + 1)]; push_cast; ring
    have hpos : (0 : ℝ) < (2 * k + 1 + 1).factorial := by positivity
    have hn : (1 : ℝ) ≤ ((2 * k + 1 + 1 + 1 : ℕ) : ℝ) := by exact_mod_cast Nat.succ_le_succ (Nat.zero_le _)
    have key : x ^ (2 * k + 1 + 1) / (2 * k + 1 + 1).factorial + -x ^ (2 * k + 1 + 1 + 1) / (2 * k + 1 + 1 + 1).factorial
        = x ^ (2 * k + 1 + 1) / (2 * k + 1 + 1).factorial * (1 - x / ((2 * k + 1 + 1 + 1 : ℕ) : ℝ)) := by
      rw [hf, pow_succ x (2 * k + 1 + 1)]
      field_simp
      ring
    have h2 : 0 ≤ 1 - x / ((2 * k + 1 + 1 + 1 : ℕ) : ℝ) := by
      have : x / ((2 * k + 1 + 1 + 1 : ℕ) : ℝ) ≤ 1 := by
        rw [div_le_one (by linarith)]; linarith
      linarith
    have h3 : 0 ≤ x ^ (2 * k + 1 + 1) / (2 * k + 1 + 1).factorial := by positivity
    rw [add_assoc, key]
    exact add_nonneg ih (mul_nonneg h3 h2)

theorem etr_neg_nonneg (x : ℝ) (h0 : 0 ≤ x) (h1 : x ≤ 1) (j : ℕ) : 0 ≤ etr j (-x) := by
  rcases Nat.even_or_odd' j with ⟨k, rfl | rfl⟩
  · cases k with
    | zero => simp [etr]
    | succ k =>
      have e : 2 * (k + 1) = (2 * k + 1) + 1 := by ring
      rw [e, etr_succ]
      have he : Even (2 * k + 1 + 1) := ⟨k + 1, by ring⟩
      rw [he.neg_pow]
      exact add_nonneg (etr_neg_odd_nonneg x h0 h1 k) (by positivity)
  · exact etr_neg_odd_nonneg x h0 h1 k

/-! ## the loop is the truncated exponential applied to the populations -/
section loop
variable {N : Nat}

theorem popLoop_eq (K : Fin N → Fin N → ℝ) (dt : ℝ) (v : Fin N → ℝ) : ∀ (cnt l : ℕ) (r1 r2 : VecD ℝ N),
    r1.fn = ((dt ^ l / (l.factorial : ℝ)) • (Matrix.of K) ^ l) *ᵥ v →
    (taylorLoop (popGen K) popAdd dt (l + 1) cnt r1 r2).fn
      = r2.fn + ∑ k ∈ range cnt, ((dt ^ (l + 1 + k) / ((l + 1 + k).factorial : ℝ)) • (Matrix.of K) ^ (l + 1 + k)) *ᵥ v := by
  intro cnt
  induction cnt with
  | zero => intro l r1 r2 _; simp [taylorLoop]
  | succ c ih =>
    intro l r1 r2 h1
    have hstep : (popGen K (dt / ((l + 1 : ℕ) : ℝ)) r1).fn
        = ((dt ^ (l + 1) / ((l + 1).factorial : ℝ)) • (Matrix.of K) ^ (l + 1)) *ᵥ v := by
      unfold popGen
      rw [VecD.fn_tab, matVec_eq_mulVec, h1]
      funext i
      rw [Matrix.smul_mulVec, Matrix.smul_mulVec, Matrix.mulVec_smul, Matrix.mulVec_mulVec, ← pow_succ']
      simp only [Pi.smul_apply, smul_eq_mul]
      have hl : ((l + 1 : ℕ) : ℝ) ≠ 0 := by positivity
      have hf : (l.factorial : ℝ) ≠ 0 := by positivity
      rw [Nat.factorial_succ]; push_cast; field_simp; ring
    simp only [taylorLoop]
    rw [ih (l + 1) _ _ hstep]
    rw [Finset.sum_range_succ']
    simp only [popAdd, VecD.fn_tab]
    funext i
    simp only [Pi.add_apply, hstep]
    have : ∀ k, l + 1 + 1 + k = l + 1 + (k + 1) := by intro k; omega
    simp only [this, add_zero]
    ring

/-- one elementary step of order `L` is multiplication by `Σ_{k≤L} (dt·K)^k/k!` -/
theorem popStep_eq (K : Fin N → Fin N → ℝ) (dt : ℝ) (L : ℕ) (p : VecD ℝ N) :
    (taylorStep (popGen K) popAdd dt L p).fn = (Etr L (dt • Matrix.of K)) *ᵥ p.fn := by
  unfold taylorStep
  rw [popLoop_eq K dt p.fn L 0 p p (by simp)]
  unfold Etr
  rw [Finset.sum_range_succ', Matrix.add_mulVec, Matrix.sum_mulVec]
  simp only [pow_zero, Nat.factorial_zero, Nat.cast_one, inv_one, one_smul, Matrix.one_mulVec, zero_add]
  rw [add_comm]
  congr 1
  refine Finset.sum_congr rfl (fun k _ => ?_)
  rw [smul_pow, smul_smul, add_comm 1 k, div_eq_inv_mul]

end loop

/-! ## positivity -/
section positivity
variable {N : Nat}

theorem mulVec_nonneg (A : Matrix (Fin N) (Fin N) ℝ) (hA : ∀ i j, 0 ≤ A i j) (p : Fin N → ℝ) (hp : ∀ j, 0 ≤ p j) (i : Fin N) :
    0 ≤ (A *ᵥ p) i := by
  simp only [Matrix.mulVec, dotProduct]
  exact Finset.sum_nonneg (fun j _ => mul_nonneg (hA i j) (hp j))

theorem pow_mulVec_nonneg (A : Matrix (Fin N) (Fin N) ℝ) (hA : ∀ i j, 0 ≤ A i j) : ∀ (m : ℕ) (p : Fin N → ℝ),
    (∀ j, 0 ≤ p j) → ∀ i, 0 ≤ ((A ^ m) *ᵥ p) i := by
  intro m
  induction m with
  | zero => intro p hp i; simpa using hp i
  | succ m ih =>
    intro p hp i
    rw [pow_succ, ← Matrix.mulVec_mulVec]
    exact ih _ (mulVec_nonneg A hA p hp) i

/-- **every expansion order keeps populations non-negative** for admissible steps: off-diagonal rates non-negative,
`−K_jj ≤ s`, `0 ≤ dt`, `dt·s ≤ 1` -/
theorem taylor_step_nonneg (K : Fin N → Fin N → ℝ) (dt s : ℝ) (hdt : 0 ≤ dt) (hs : 0 ≤ s) (hx : dt * s ≤ 1)
    (hoff : ∀ i j, i ≠ j → 0 ≤ K i j) (hdiag : ∀ j, 0 ≤ K j j + s) (L : ℕ) (p : VecD ℝ N) (hp : ∀ j, 0 ≤ p.fn j)
    (i : Fin N) : 0 ≤ (taylorStep (popGen K) popAdd dt L p).fn i := by
  rw [popStep_eq]
  set A : Matrix (Fin N) (Fin N) ℝ := dt • Matrix.of K + (dt * s) • (1 : Matrix (Fin N) (Fin N) ℝ) with hAdef
  have hA : ∀ a b, 0 ≤ A a b := by
    intro a b
    simp only [hAdef, Matrix.add_apply, Matrix.smul_apply, Matrix.of_apply, smul_eq_mul, Matrix.one_apply]
    by_cases hab : a = b
    · subst hab
      simp only [if_true, mul_one]
      have := mul_nonneg hdt (hdiag a)
      nlinarith
    · simp only [if_neg hab, mul_zero, add_zero]
      exact mul_nonneg hdt (hoff a b hab)
  have hsplit : dt • Matrix.of K = A + (-(dt * s)) • (1 : Matrix (Fin N) (Fin N) ℝ) := by
    rw [hAdef, neg_smul]; abel
  rw [hsplit, Etr_shift, Matrix.sum_mulVec]
  simp only [Finset.sum_apply]
  refine Finset.sum_nonneg (fun m _ => ?_)
  rw [Matrix.smul_mulVec]
  simp only [Pi.smul_apply, smul_eq_mul]
  refine mul_nonneg (mul_nonneg (by positivity) (etr_neg_nonneg _ (mul_nonneg hdt hs) hx _)) ?_
  exact pow_mulVec_nonneg A hA m p.fn hp i

/-- … hence every stored point of the propagation -/
theorem populations_nonneg (K : Fin N → Fin N → ℝ) (dt s : ℝ) (hdt : 0 ≤ dt) (hs : 0 ≤ s) (hx : dt * s ≤ 1)
    (hoff : ∀ i j, i ≠ j → 0 ≤ K i j) (hdiag : ∀ j, 0 ≤ K j j + s) (L Nref nt : ℕ) (p0 : VecD ℝ N)
    (hp : ∀ j, 0 ≤ p0.fn j) : ∀ p ∈ popPropagate K dt L Nref nt p0, ∀ j, 0 ≤ p.fn j := by
  have hstep : ∀ p : VecD ℝ N, (∀ j, 0 ≤ p.fn j) → ∀ j, 0 ≤ (taylorStep (popGen K) popAdd dt L p).fn j :=
    fun p h j => taylor_step_nonneg K dt s hdt hs hx hoff hdiag L p h j
  have hsteps : ∀ (n : ℕ) (p : VecD ℝ N), (∀ j, 0 ≤ p.fn j) → ∀ j, 0 ≤ (taylorSteps (popGen K) popAdd dt L n p).fn j := by
    intro n
    induction n with
    | zero => intro p h; exact h
    | succ n ih => intro p h; simp only [taylorSteps]; exact ih _ (hstep p h)
  unfold popPropagate
  induction nt generalizing p0 with
  | zero => intro p hp'; simp [taylorTrajectory] at hp'
  | succ n ih =>
    intro p hp'
    simp only [taylorTrajectory, List.mem_cons] at hp'
    rcases hp' with rfl | hp'
    · exact hp
    · exact ih _ (hsteps Nref p0 hp) p hp'

/-- the hypotheses are satisfiable by a genuine rate matrix (two states, rates 1 and 2, step 1/2, bound 2) -/
example : ∃ (K : Fin 2 → Fin 2 → ℝ) (dt s : ℝ), 0 ≤ dt ∧ 0 ≤ s ∧ dt * s ≤ 1 ∧ (∀ i j, i ≠ j → 0 ≤ K i j) ∧
    (∀ j, 0 ≤ K j j + s) ∧ (∀ j, ∑ i, K i j = 0) ∧ K 0 1 ≠ 0 :=
  ⟨fun i j => if i = j then (if i = 0 then -1 else -2) else (if i = 0 then 2 else 1), 1 / 2, 2, by norm_num, by norm_num,
    by norm_num, by intro i j h; fin_cases i <;> fin_cases j <;> simp_all, by intro j; fin_cases j <;> norm_num,
    by intro j; fin_cases j <;> simp [Fin.sum_univ_two], by norm_num⟩

end positivity
end QV.C17
