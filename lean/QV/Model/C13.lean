import QV.Core.Tab
/-!
Model of `TimeAxis.get_FrequencyAxis`, `FrequencyAxis.get_TimeAxis`
(quantarhei/core/time.py, frequency.py) and of the index maps of
`DFunction.get_Fourier_transform` / `get_inverse_Fourier_transform`
(core/dfunction.py).  Angular frequencies are kept in units of π so that all
axis arithmetic is rational: `2π/(N·dt)` is the number `2/(N·dt)`.
-/
namespace QV.C13

structure TAxis (K : Type) where
  start : K
  len : Nat
  step : K
  upper : Bool          -- atype == "upper-half"
  fstart : K            -- frequency_start (units of π)
  deriving Repr

structure FAxis (K : Type) where
  start : K             -- units of π
  len : Nat
  step : K              -- units of π
  upper : Bool
  tstart : K            -- time_start
  deriving Repr

section
variable {K : Type} [Add K] [Sub K] [Mul K] [Div K] [Neg K] [NatCast K] [OfNat K 2]

/-- `fftshift(2π·fftfreq(n, d))[j] = 2π (j − n//2)/(n d)`, in units of π -/
def shiftedFreq (n : Nat) (d : K) (j : Nat) : K := (2 * ((j : K) - ((n / 2 : Nat) : K))) / ((n : K) * d)

/-- `TimeAxis.get_FrequencyAxis` -/
def toFreq (t : TAxis K) : FAxis K :=
  if t.upper then
    { start := shiftedFreq (2 * t.len) t.step 0 + t.fstart,
      len := 2 * t.len,
      step := shiftedFreq (2 * t.len) t.step 1 - shiftedFreq (2 * t.len) t.step 0,
      upper := true, tstart := t.start }
  else
    { start := shiftedFreq t.len t.step 0 + t.fstart,
      len := t.len,
      step := shiftedFreq t.len t.step 1 - shiftedFreq t.len t.step 0,
      upper := false, tstart := t.start + ((t.len / 2 : Nat) : K) * t.step }

/-- `FrequencyAxis.get_TimeAxis`; `none` = raises (upper-half with an odd number of points).
`fftfreq(n, step/(2π))` and `2π·fftfreq(n, step)` with `step` in units of π give the same numbers. -/
def toTime (w : FAxis K) : Option (TAxis K) :=
  if w.upper then
    if w.len % 2 ≠ 0 then none
    else some { start := shiftedFreq w.len w.step (w.len / 2) + w.tstart,
                len := w.len / 2,
                step := shiftedFreq w.len w.step 1 - shiftedFreq w.len w.step 0,
                upper := true, fstart := w.start + ((w.len / 2 : Nat) : K) * w.step }
  else
    some { start := w.tstart + shiftedFreq w.len w.step 0,
           len := w.len,
           step := shiftedFreq w.len w.step 1 - shiftedFreq w.len w.step 0,
           upper := false, fstart := w.start + ((w.len / 2 : Nat) : K) * w.step }
end

/-! ## index maps of the transforms (length `n`, data as functions on `Fin n`) -/
section
variable {α : Type}

/-- `numpy.roll(x, s)`: `out[j] = x[(j − s) mod n]` (s may exceed n) -/
def roll {n : Nat} (s : Nat) (x : Fin n → α) : Fin n → α :=
  fun j => x ⟨(j.val + n - s % n) % n, Nat.mod_lt _ (Nat.lt_of_le_of_lt (Nat.zero_le _) j.isLt)⟩

/-- `numpy.fft.fftshift` = roll by `n//2`; `ifftshift` = roll by `−(n//2)` = roll by `n − n//2` -/
def fftshift {n : Nat} (x : Fin n → α) : Fin n → α := roll (n / 2) x
def ifftshift {n : Nat} (x : Fin n → α) : Fin n → α := roll (n - n / 2) x
end

section
variable {α : Type} [Add α] [Mul α] [Zero α] [One α]

def npow (z : α) : Nat → α
  | 0 => 1
  | k + 1 => npow z k * z

/-- `numpy.fft.fft` without normalisation, for a root of unity `ζ` standing for `e^{−2πi/n}`;
`ifft` is the same with `ζ⁻¹` and the factor `1/n` (applied by the callers below) -/
def dft {n : Nat} (ζ : α) (x : Fin n → α) : Fin n → α :=
  fun k => sumFin n (fun m => x m * npow ζ ((k.val * m.val) % n))

/-- `get_Fourier_transform`, complete TimeAxis: `N·fftshift(ifft(ifftshift(y)))·dt`; `ζi` stands for `e^{+2πi/n}` -/
def ftComplete {n : Nat} (ζi dt : α) (y : Fin n → α) : Fin n → α :=
  fun j => fftshift (dft ζi (ifftshift y)) j * dt

/-- `get_inverse_Fourier_transform`, complete TimeAxis: `fftshift(fft(ifftshift(y)))·dt` -/
def iftComplete {n : Nat} (ζ dt : α) (y : Fin n → α) : Fin n → α :=
  fun j => fftshift (dft ζ (ifftshift y)) j * dt

/-- what the upper-half branch writes before transforming: `yy[0:N] = y`, `yy[2N−k−1] = conj(y[k+1])` for
`k = 0 … N−2`, `yy[N] = 0` (numpy.zeros) -/
def hermExt {N : Nat} (conj : α → α) (y : Fin N → α) : Fin (2 * N) → α :=
  fun m =>
    if h : m.val < N then y ⟨m.val, h⟩
    else if m.val = N then 0
    else conj (y ⟨(2 * N - m.val) % N, Nat.mod_lt _ (by have := m.isLt; omega)⟩)

/-- `get_Fourier_transform`, upper-half TimeAxis of `N` points: `2N·fftshift(ifft(yy))·dt` on the `2N`-point
frequency axis; `ζi` stands for `e^{+2πi/(2N)}` -/
def ftUpper {N : Nat} (conj : α → α) (ζi dt : α) (y : Fin N → α) : Fin (2 * N) → α :=
  fun j => fftshift (dft ζi (hermExt conj y)) j * dt

/-- `get_inverse_Fourier_transform` of a function on an upper-half FrequencyAxis (`2N` points): the complete inverse
transform, of which the upper half `Y[N:2N]` is returned on the `N`-point time axis -/
def iftUpper {N : Nat} (ζ c : α) (F : Fin (2 * N) → α) : Fin N → α :=
  fun k => iftComplete ζ c F ⟨N + k.val, by have := k.isLt; omega⟩

/-- the direct Fourier sum on centred axes: `Σ_m y[m] ζ^{((j−h)(m−h)) mod n}·dt`, `h = n//2` -/
def directSum {n : Nat} (ζi dt : α) (y : Fin n → α) : Fin n → α :=
  fun j => sumFin n (fun m => y m * npow ζi (((j.val + n - n / 2) * (m.val + n - n / 2)) % n)) * dt
end

end QV.C13
