import QV.Props.C12Weyl
import QV.Model.C12
import Mathlib.Algebra.BigOperators.Fin
import Mathlib.Algebra.BigOperators.Ring.Finset
import Mathlib.Tactic.Ring
import Mathlib.Tactic.LinearCombination
import Mathlib.Tactic.FieldSimp

/-!
# C12 — the orientational average of four field-dipole projections

For ANY averaging functional over 3×3 matrices that is linear, normalised, sees only orthogonal matrices and
is invariant - on products of four matrix elements - under multiplication from the left and from the right by three
explicit rational rotation matrices (quarter turns about z and x and the rotation about z with cos = 3/5, sin = 4/5) - properties the
average over all molecular orientations (the Haar average of SO(3)) has for every rotation - the average of
`R_{ia} R_{jb} R_{kc} R_{ld}` is `Σ_{αβ} I^α_{ijkl} M4_{αβ} I^β_{abcd}` with the three isotropic tensors `I^α` and
`M4 = [[4,-1,-1],[-1,4,-1],[-1,-1,4]]/30`.  Nothing about rotation averages is assumed beyond these
properties: the classification of the invariant tensors is proved here.
-/
namespace QV.C12
open Finset

abbrev M3 := Fin 3 → Fin 3 → ℝ
abbrev T4 := Fin 3 → Fin 3 → Fin 3 → Fin 3 → ℝ

def mulM (A B : M3) : M3 := fun i j => ∑ k, A i k * B k j
def trM (Q : M3) : M3 := fun i j => Q j i
def IsOrtho (R : M3) : Prop := ∀ a b, ∑ i, R i a * R i b = if a = b then 1 else 0

/-- quarter turns as matrices -/
def Qz : M3 := fun i p => if p = σz i then εz i else 0
def Qx : M3 := fun i p => if p = σx i then εx i else 0
/-- rotation about z by the angle with cos = 3/5, sin = 4/5 -/
noncomputable def Qr : M3 := ![![3/5, -4/5, 0], ![4/5, 3/5, 0], ![0, 0, 1]]

/-- a tensor rotated in all four slots -/
def rot4 (Q : M3) (t : T4) : T4 := fun i j k l => ∑ p, ∑ q, ∑ r, ∑ s, Q i p * Q j q * Q k r * Q l s * t p q r s

theorem rot4_signed (σ : Fin 3 → Fin 3) (ε : Fin 3 → ℝ) (t : T4) (i j k l : Fin 3) :
    rot4 (fun i p => if p = σ i then ε i else 0) t i j k l = ε i * ε j * ε k * ε l * t (σ i) (σ j) (σ k) (σ l) := by
  unfold rot4
  simp only [ite_mul, zero_mul, mul_ite, mul_zero, Finset.sum_ite_eq', Finset.mem_univ, if_true]

/-- the three isotropic tensors (real valued) -/
def isoR (α : Fin 3) (i j k l : Fin 3) : ℝ :=
  match α with
  | 0 => if i = j ∧ k = l then 1 else 0
  | 1 => if i = k ∧ j = l then 1 else 0
  | 2 => if i = l ∧ j = k then 1 else 0

def Inv4 (t : T4) : Prop := rot4 Qz t = t ∧ rot4 Qx t = t ∧ rot4 Qr t = t

/-- **invariant rank-4 tensors are combinations of the three `δδ` tensors** (for invariance under the three
rotations above already) -/
theorem weyl4 (t : T4) (h : Inv4 t) :
    ∀ i j k l, t i j k l = t 0 0 1 1 * isoR 0 i j k l + t 0 1 0 1 * isoR 1 i j k l + t 0 1 1 0 * isoR 2 i j k l := by
  obtain ⟨hz, hx, hr⟩ := h
  have hz' : ∀ i j k l, t i j k l = εz i * εz j * εz k * εz l * t (σz i) (σz j) (σz k) (σz l) := by
    intro i j k l
    have := congrFun (congrFun (congrFun (congrFun hz i) j) k) l
    rw [← this]
    exact rot4_signed σz εz t i j k l
  have hx' : ∀ i j k l, t i j k l = εx i * εx j * εx k * εx l * t (σx i) (σx j) (σx k) (σx l) := by
    intro i j k l
    have := congrFun (congrFun (congrFun (congrFun hx i) j) k) l
    rw [← this]
    exact rot4_signed σx εx t i j k l
  have cf := cubic_form t hz' hx'
  -- the diagonal value from the rational rotation
  have h0 : t 0 0 0 0 = t 0 0 1 1 + t 0 1 0 1 + t 0 1 1 0 := by
    have e := congrFun (congrFun (congrFun (congrFun hr 0) 0) 0) 0
    simp only [rot4, Qr, Fin.sum_univ_three, Matrix.cons_val_zero, Matrix.cons_val_one, Matrix.cons_val_two,
      Matrix.head_cons, Matrix.tail_cons] at e
    rw [cf 0 0 0 1, cf 0 0 1 0, cf 0 1 0 0, cf 1 0 0 0, cf 0 1 1 1, cf 1 0 1 1, cf 1 1 0 1, cf 1 1 1 0,
      cf 1 1 0 0, cf 1 0 1 0, cf 1 0 0 1, cf 1 1 1 1] at e
    simp at e
    linarith
  intro i j k l
  rw [cf i j k l]
  fin_cases i <;> fin_cases j <;> fin_cases k <;> fin_cases l <;> simp [isoR] <;> linarith

/-! ## averaging functionals -/

/-- what is used of "the average over all orientations": linear, normalised, blind outside the orthogonal
matrices, and - on the products of four matrix elements, the only functions whose invariance is needed - invariant
under the three rotations from the left and (their transposes) from the right.

The invariance is deliberately NOT demanded for every function `M3 → ℝ`: the three rotations generate a subgroup of
SO(3) that contains a free group, so no finitely additive functional on *all* functions is invariant under it
(Banach-Tarski); demanded of the quartic monomials it is what the Haar integral, extended linearly to all functions in
any way, provides. -/
structure RotationAverage (avg : (M3 → ℝ) → ℝ) : Prop where
  add : ∀ f g, avg (fun R => f R + g R) = avg f + avg g
  smul : ∀ (c : ℝ) f, avg (fun R => c * f R) = c * avg f
  one : avg (fun _ => 1) = 1
  supp : ∀ f g, (∀ R, IsOrtho R → f R = g R) → avg f = avg g
  left : ∀ Q, Q = Qz ∨ Q = Qx ∨ Q = Qr → ∀ i j k l a b c d,
    avg (fun R => mulM Q R i a * mulM Q R j b * mulM Q R k c * mulM Q R l d) = avg (fun R => R i a * R j b * R k c * R l d)
  right : ∀ Q, Q = Qz ∨ Q = Qx ∨ Q = Qr → ∀ i j k l a b c d,
    avg (fun R => mulM R (trM Q) i a * mulM R (trM Q) j b * mulM R (trM Q) k c * mulM R (trM Q) l d)
      = avg (fun R => R i a * R j b * R k c * R l d)

section
variable {avg : (M3 → ℝ) → ℝ} (ha : RotationAverage avg)
include ha

theorem avg_zero : avg (fun _ => 0) = 0 := by
  have := ha.smul 0 (fun _ => 1)
  simpa using this

theorem avg_sum {ι : Type} (s : Finset ι) (f : ι → M3 → ℝ) :
    avg (fun R => ∑ x ∈ s, f x R) = ∑ x ∈ s, avg (f x) := by
  classical
  induction s using Finset.induction_on with
  | empty => simpa using avg_zero ha
  | insert x s hx ih =>
    simp only [Finset.sum_insert hx]
    rw [ha.add, ih]

/-- the averaged product of four matrix elements -/
def T8 (avg : (M3 → ℝ) → ℝ) (i j k l a b c d : Fin 3) : ℝ := avg (fun R => R i a * R j b * R k c * R l d)

theorem avg_sum4 (g : Fin 3 → Fin 3 → Fin 3 → Fin 3 → ℝ) (f : Fin 3 → Fin 3 → Fin 3 → Fin 3 → M3 → ℝ) :
    avg (fun R => ∑ p, ∑ q, ∑ r, ∑ s, g p q r s * f p q r s R) = ∑ p, ∑ q, ∑ r, ∑ s, g p q r s * avg (f p q r s) := by
  rw [avg_sum ha]
  refine Finset.sum_congr rfl (fun p _ => ?_)
  rw [avg_sum ha]
  refine Finset.sum_congr rfl (fun q _ => ?_)
  rw [avg_sum ha]
  refine Finset.sum_congr rfl (fun r _ => ?_)
  rw [avg_sum ha]
  refine Finset.sum_congr rfl (fun s _ => ?_)
  rw [ha.smul]

/-- left invariance: for fixed column indices the averaged tensor is invariant in its row indices -/
theorem T8_left (Q : M3) (hQ : Q = Qz ∨ Q = Qx ∨ Q = Qr) (a b c d : Fin 3) :
    rot4 Q (fun i j k l => T8 avg i j k l a b c d) = fun i j k l => T8 avg i j k l a b c d := by
  funext i j k l
  have h := ha.left Q hQ i j k l a b c d
  have e : (fun R : M3 => mulM Q R i a * mulM Q R j b * mulM Q R k c * mulM Q R l d)
      = fun R => ∑ p, ∑ q, ∑ r, ∑ s, (Q i p * Q j q * Q k r * Q l s) * (R p a * R q b * R r c * R s d) := by
    funext R
    simp only [mulM, Fin.sum_univ_three]
    ring
  simp only [T8, rot4]
  rw [← h, e, avg_sum4 ha]

/-- right invariance: for fixed row indices the averaged tensor is invariant in its column indices -/
theorem T8_right (Q : M3) (hQ : Q = Qz ∨ Q = Qx ∨ Q = Qr) (i j k l : Fin 3) :
    rot4 Q (fun a b c d => T8 avg i j k l a b c d) = fun a b c d => T8 avg i j k l a b c d := by
  funext a b c d
  have h := ha.right Q hQ i j k l a b c d
  have e : (fun R : M3 => mulM R (trM Q) i a * mulM R (trM Q) j b * mulM R (trM Q) k c * mulM R (trM Q) l d)
      = fun R => ∑ p, ∑ q, ∑ r, ∑ s, (Q a p * Q b q * Q c r * Q d s) * (R i p * R j q * R k r * R l s) := by
    funext R
    simp only [mulM, trM, Fin.sum_univ_three]
    ring
  simp only [T8, rot4]
  rw [← h, e, avg_sum4 ha]

theorem T8_inv_rows (a b c d : Fin 3) : Inv4 (fun i j k l => T8 avg i j k l a b c d) :=
  ⟨T8_left ha Qz (Or.inl rfl) a b c d, T8_left ha Qx (Or.inr (Or.inl rfl)) a b c d, T8_left ha Qr (Or.inr (Or.inr rfl)) a b c d⟩
theorem T8_inv_cols (i j k l : Fin 3) : Inv4 (fun a b c d => T8 avg i j k l a b c d) :=
  ⟨T8_right ha Qz (Or.inl rfl) i j k l, T8_right ha Qx (Or.inr (Or.inl rfl)) i j k l, T8_right ha Qr (Or.inr (Or.inr rfl)) i j k l⟩

/-- the averaged tensor is a combination of products of isotropic tensors with nine coefficients -/
theorem T8_form : ∃ C : Fin 3 → Fin 3 → ℝ, ∀ i j k l a b c d,
    T8 avg i j k l a b c d = ∑ α, ∑ β, C α β * isoR α i j k l * isoR β a b c d := by
  refine ⟨fun α β => match α, β with
    | 0, 0 => T8 avg 0 0 1 1 0 0 1 1 | 0, 1 => T8 avg 0 0 1 1 0 1 0 1 | 0, 2 => T8 avg 0 0 1 1 0 1 1 0
    | 1, 0 => T8 avg 0 1 0 1 0 0 1 1 | 1, 1 => T8 avg 0 1 0 1 0 1 0 1 | 1, 2 => T8 avg 0 1 0 1 0 1 1 0
    | 2, 0 => T8 avg 0 1 1 0 0 0 1 1 | 2, 1 => T8 avg 0 1 1 0 0 1 0 1 | 2, 2 => T8 avg 0 1 1 0 0 1 1 0, ?_⟩
  intro i j k l a b c d
  have h1 := weyl4 _ (T8_inv_rows ha a b c d) i j k l
  have c0 := weyl4 _ (T8_inv_cols ha 0 0 1 1) a b c d
  have c1 := weyl4 _ (T8_inv_cols ha 0 1 0 1) a b c d
  have c2 := weyl4 _ (T8_inv_cols ha 0 1 1 0) a b c d
  beta_reduce at h1 c0 c1 c2
  rw [h1, c0, c1, c2]
  simp only [Fin.sum_univ_three]
  ring

end

/-! ## the nine coefficients -/

theorem ortho_contract (R : M3) (hR : IsOrtho R) (a b c d : Fin 3) :
    (∑ i, ∑ k, R i a * R i b * R k c * R k d) = (if a = b then 1 else 0) * (if c = d then 1 else 0)
    ∧ (∑ i, ∑ j, R i a * R j b * R i c * R j d) = (if a = c then 1 else 0) * (if b = d then 1 else 0)
    ∧ (∑ i, ∑ j, R i a * R j b * R j c * R i d) = (if a = d then 1 else 0) * (if b = c then 1 else 0) := by
  refine ⟨?_, ?_, ?_⟩
  · rw [← hR a b, ← hR c d, Finset.sum_mul_sum]
    exact Finset.sum_congr rfl (fun i _ => Finset.sum_congr rfl (fun k _ => by ring))
  · rw [← hR a c, ← hR b d, Finset.sum_mul_sum]
    exact Finset.sum_congr rfl (fun i _ => Finset.sum_congr rfl (fun k _ => by ring))
  · rw [← hR a d, ← hR b c, Finset.sum_mul_sum]
    exact Finset.sum_congr rfl (fun i _ => Finset.sum_congr rfl (fun k _ => by ring))

section
variable {avg : (M3 → ℝ) → ℝ} (ha : RotationAverage avg)
include ha

theorem avg_const (c : ℝ) : avg (fun _ => c) = c := by
  have := ha.smul c (fun _ => 1)
  simpa [ha.one] using this

theorem avg_sum2 (f : Fin 3 → Fin 3 → M3 → ℝ) :
    avg (fun R => ∑ i, ∑ k, f i k R) = ∑ i, ∑ k, avg (f i k) := by
  rw [avg_sum ha]
  exact Finset.sum_congr rfl (fun i _ => avg_sum ha _ _)

/-- the three double contractions of the averaged tensor, from `RᵀR = 1` -/
theorem T8_contractions (a b c d : Fin 3) :
    (∑ i, ∑ k, T8 avg i i k k a b c d) = (if a = b then 1 else 0) * (if c = d then 1 else 0)
    ∧ (∑ i, ∑ j, T8 avg i j i j a b c d) = (if a = c then 1 else 0) * (if b = d then 1 else 0)
    ∧ (∑ i, ∑ j, T8 avg i j j i a b c d) = (if a = d then 1 else 0) * (if b = c then 1 else 0) := by
  refine ⟨?_, ?_, ?_⟩
  · unfold T8
    rw [← avg_sum2 ha, ha.supp _ (fun _ => (if a = b then 1 else 0) * (if c = d then 1 else 0))
      (fun R hR => (ortho_contract R hR a b c d).1), avg_const ha]
  · unfold T8
    rw [← avg_sum2 ha, ha.supp _ (fun _ => (if a = c then 1 else 0) * (if b = d then 1 else 0))
      (fun R hR => (ortho_contract R hR a b c d).2.1), avg_const ha]
  · unfold T8
    rw [← avg_sum2 ha, ha.supp _ (fun _ => (if a = d then 1 else 0) * (if b = c then 1 else 0))
      (fun R hR => (ortho_contract R hR a b c d).2.2), avg_const ha]

/-- `M4` of `LabSetup` -/
noncomputable def m4R (α β : Fin 3) : ℝ := (if α = β then 4 else -1) / 30

/-- **the averaged rotation tensor**: `⟨R_ia R_jb R_kc R_ld⟩ = Σ_{αβ} M4_{αβ} I^α_{ijkl} I^β_{abcd}` -/
theorem T8_eq (i j k l a b c d : Fin 3) :
    T8 avg i j k l a b c d = ∑ α, ∑ β, m4R α β * isoR α i j k l * isoR β a b c d := by
  obtain ⟨C, hC⟩ := T8_form ha
  -- nine linear equations for the nine coefficients
  have e1 := fun a b c d => (T8_contractions ha a b c d).1
  have e2 := fun a b c d => (T8_contractions ha a b c d).2.1
  have e3 := fun a b c d => (T8_contractions ha a b c d).2.2
  simp only [hC] at e1 e2 e3
  have a1 := e1 0 0 1 1; have a2 := e1 0 1 0 1; have a3 := e1 0 1 1 0
  have b1 := e2 0 0 1 1; have b2 := e2 0 1 0 1; have b3 := e2 0 1 1 0
  have c1 := e3 0 0 1 1; have c2 := e3 0 1 0 1; have c3 := e3 0 1 1 0
  simp [Fin.sum_univ_three, isoR] at a1 a2 a3 b1 b2 b3 c1 c2 c3
  have h00 : C 0 0 = 4 / 30 := by linarith
  have h10 : C 1 0 = -1 / 30 := by linarith
  have h20 : C 2 0 = -1 / 30 := by linarith
  have h01 : C 0 1 = -1 / 30 := by linarith
  have h11 : C 1 1 = 4 / 30 := by linarith
  have h21 : C 2 1 = -1 / 30 := by linarith
  have h02 : C 0 2 = -1 / 30 := by linarith
  have h12 : C 1 2 = -1 / 30 := by linarith
  have h22 : C 2 2 = 4 / 30 := by linarith
  rw [hC]
  simp only [Fin.sum_univ_three, h00, h10, h20, h01, h11, h21, h02, h12, h22, m4R, Fin.reduceEq, if_true, if_false]

end
/-! ## four field-dipole projections -/

/-- contraction of a rank-4 tensor with four vectors -/
def c4 (t : T4) (x y z w : Fin 3 → ℝ) : ℝ := ∑ i, ∑ j, ∑ k, ∑ l, (x i * y j * z k * w l) * t i j k l
def dotR (x y : Fin 3 → ℝ) : ℝ := ∑ i, x i * y i
/-- `e · (R d)`: projection of the rotated dipole on the field polarisation -/
def proj (e d : Fin 3 → ℝ) (R : M3) : ℝ := ∑ i, ∑ a, e i * R i a * d a

theorem c4_comb3 (m0 m1 m2 : ℝ) (A0 A1 A2 : T4) (x y z w : Fin 3 → ℝ) :
    c4 (fun i j k l => m0 * A0 i j k l + m1 * A1 i j k l + m2 * A2 i j k l) x y z w
      = m0 * c4 A0 x y z w + m1 * c4 A1 x y z w + m2 * c4 A2 x y z w := by
  unfold c4
  have h : ∀ i j k l, (x i * y j * z k * w l) * (m0 * A0 i j k l + m1 * A1 i j k l + m2 * A2 i j k l)
      = m0 * ((x i * y j * z k * w l) * A0 i j k l) + m1 * ((x i * y j * z k * w l) * A1 i j k l)
        + m2 * ((x i * y j * z k * w l) * A2 i j k l) := by intros; ring
  simp only [h, Finset.sum_add_distrib, ← Finset.mul_sum]

/-- contractions with the isotropic tensors are the three pairings of scalar products -/
theorem c4_iso (x y z w : Fin 3 → ℝ) :
    c4 (isoR 0) x y z w = dotR x y * dotR z w ∧ c4 (isoR 1) x y z w = dotR x z * dotR y w
    ∧ c4 (isoR 2) x y z w = dotR x w * dotR y z := by
  refine ⟨?_, ?_, ?_⟩ <;> simp [c4, isoR, dotR, Fin.sum_univ_three] <;> ring

theorem prod_proj (e3 e2 e1 e0 d3 d2 d1 d0 : Fin 3 → ℝ) (R : M3) :
    proj e3 d3 R * proj e2 d2 R * proj e1 d1 R * proj e0 d0 R
      = c4 (fun i j k l => c4 (fun a b c d => R i a * R j b * R k c * R l d) d3 d2 d1 d0) e3 e2 e1 e0 := by
  have inner : ∀ i j k l, c4 (fun a b c d => R i a * R j b * R k c * R l d) d3 d2 d1 d0
      = (∑ a, R i a * d3 a) * (∑ b, R j b * d2 b) * (∑ c, R k c * d1 c) * (∑ d, R l d * d0 d) := by
    intro i j k l
    simp only [c4, Fin.sum_univ_three]
    ring
  have pr : ∀ (e d : Fin 3 → ℝ), proj e d R = ∑ i, e i * ∑ a, R i a * d a := by
    intro e d
    unfold proj
    refine Finset.sum_congr rfl (fun i _ => ?_)
    rw [Finset.mul_sum]
    exact Finset.sum_congr rfl (fun a _ => by ring)
  simp only [inner, pr]
  generalize (fun i => ∑ a, R i a * d3 a) = u3
  generalize (fun i => ∑ a, R i a * d2 a) = u2
  generalize (fun i => ∑ a, R i a * d1 a) = u1
  generalize (fun i => ∑ a, R i a * d0 a) = u0
  simp only [c4, Fin.sum_univ_three]
  ring

section
variable {avg : (M3 → ℝ) → ℝ} (ha : RotationAverage avg)
include ha

theorem avg_c4c4 (e3 e2 e1 e0 d3 d2 d1 d0 : Fin 3 → ℝ) :
    avg (fun R => c4 (fun i j k l => c4 (fun a b c d => R i a * R j b * R k c * R l d) d3 d2 d1 d0) e3 e2 e1 e0)
      = c4 (fun i j k l => c4 (fun a b c d => T8 avg i j k l a b c d) d3 d2 d1 d0) e3 e2 e1 e0 := by
  unfold c4
  rw [avg_sum4 ha (fun i j k l => e3 i * e2 j * e1 k * e0 l)
    (fun i j k l R => ∑ a, ∑ b, ∑ c, ∑ d, (d3 a * d2 b * d1 c * d0 d) * (R i a * R j b * R k c * R l d))]
  refine Finset.sum_congr rfl (fun i _ => Finset.sum_congr rfl (fun j _ => Finset.sum_congr rfl (fun k _ =>
    Finset.sum_congr rfl (fun l _ => ?_))))
  rw [avg_sum4 ha (fun a b c d => d3 a * d2 b * d1 c * d0 d) (fun a b c d R => R i a * R j b * R k c * R l d)]
  rfl

/-- the three pairings of four vectors numbered as in the source (`v 3`, `v 2`, `v 1`, `v 0`) -/
noncomputable def F4R (v3 v2 v1 v0 : Fin 3 → ℝ) (α : Fin 3) : ℝ :=
  match α with
  | 0 => dotR v3 v2 * dotR v1 v0
  | 1 => dotR v3 v1 * dotR v2 v0
  | 2 => dotR v3 v0 * dotR v2 v1

/-- **the orientational average of the product of the four field-dipole projections is `F4e · M4 · F4n`**, for
every four polarisations and every four dipoles -/
theorem orientational_average (e3 e2 e1 e0 d3 d2 d1 d0 : Fin 3 → ℝ) :
    avg (fun R => proj e3 d3 R * proj e2 d2 R * proj e1 d1 R * proj e0 d0 R)
      = ∑ α, ∑ β, F4R e3 e2 e1 e0 α * m4R α β * F4R d3 d2 d1 d0 β := by
  have h1 : (fun R => proj e3 d3 R * proj e2 d2 R * proj e1 d1 R * proj e0 d0 R)
      = fun R => c4 (fun i j k l => c4 (fun a b c d => R i a * R j b * R k c * R l d) d3 d2 d1 d0) e3 e2 e1 e0 := by
    funext R; exact prod_proj e3 e2 e1 e0 d3 d2 d1 d0 R
  rw [h1, avg_c4c4 ha]
  obtain ⟨D0, D1, D2⟩ := c4_iso d3 d2 d1 d0
  obtain ⟨E0, E1, E2⟩ := c4_iso e3 e2 e1 e0
  -- inner contraction
  have inner : ∀ i j k l, c4 (fun a b c d => T8 avg i j k l a b c d) d3 d2 d1 d0
      = (m4R 0 0 * c4 (isoR 0) d3 d2 d1 d0 + m4R 0 1 * c4 (isoR 1) d3 d2 d1 d0 + m4R 0 2 * c4 (isoR 2) d3 d2 d1 d0) * isoR 0 i j k l
      + (m4R 1 0 * c4 (isoR 0) d3 d2 d1 d0 + m4R 1 1 * c4 (isoR 1) d3 d2 d1 d0 + m4R 1 2 * c4 (isoR 2) d3 d2 d1 d0) * isoR 1 i j k l
      + (m4R 2 0 * c4 (isoR 0) d3 d2 d1 d0 + m4R 2 1 * c4 (isoR 1) d3 d2 d1 d0 + m4R 2 2 * c4 (isoR 2) d3 d2 d1 d0) * isoR 2 i j k l := by
    intro i j k l
    have : (fun a b c d => T8 avg i j k l a b c d) = fun a b c d =>
        (m4R 0 0 * isoR 0 i j k l + m4R 1 0 * isoR 1 i j k l + m4R 2 0 * isoR 2 i j k l) * isoR 0 a b c d
        + (m4R 0 1 * isoR 0 i j k l + m4R 1 1 * isoR 1 i j k l + m4R 2 1 * isoR 2 i j k l) * isoR 1 a b c d
        + (m4R 0 2 * isoR 0 i j k l + m4R 1 2 * isoR 1 i j k l + m4R 2 2 * isoR 2 i j k l) * isoR 2 a b c d := by
      funext a b c d
      rw [T8_eq ha]
      simp only [Fin.sum_univ_three]
      ring
    rw [this, c4_comb3]
    ring
  simp only [inner]
  have outer := c4_comb3
    (m4R 0 0 * c4 (isoR 0) d3 d2 d1 d0 + m4R 0 1 * c4 (isoR 1) d3 d2 d1 d0 + m4R 0 2 * c4 (isoR 2) d3 d2 d1 d0)
    (m4R 1 0 * c4 (isoR 0) d3 d2 d1 d0 + m4R 1 1 * c4 (isoR 1) d3 d2 d1 d0 + m4R 1 2 * c4 (isoR 2) d3 d2 d1 d0)
    (m4R 2 0 * c4 (isoR 0) d3 d2 d1 d0 + m4R 2 1 * c4 (isoR 1) d3 d2 d1 d0 + m4R 2 2 * c4 (isoR 2) d3 d2 d1 d0)
    (isoR 0) (isoR 1) (isoR 2) e3 e2 e1 e0
  rw [outer, D0, D1, D2, E0, E1, E2]
  simp only [Fin.sum_univ_three, F4R]
  ring

end
end QV.C12
