import QV.Model.C16
import Mathlib.Algebra.BigOperators.Group.List.Basic
import Mathlib.Data.List.Nodup
import Mathlib.Tactic.Ring

/-!
# C16 — hierarchical equations: complete index set, consistent links
Theorems about the transcription of `KTHierarchy.generate_indices` /
`_make_nmp1`, for every number of baths `N` and every depth.
-/
namespace QV.C16

/-! ## `inc` / `dec` -/

theorem inc_length (l : List Nat) (n : Nat) : (inc l n).length = l.length := by
  induction l generalizing n with
  | nil => simp [inc]
  | cons x xs ih => cases n <;> simp [inc, ih]

theorem inc_sum (l : List Nat) (n : Nat) (h : n < l.length) : (inc l n).sum = l.sum + 1 := by
  induction l generalizing n with
  | nil => simp at h
  | cons x xs ih =>
    cases n with
    | zero => simp [inc]; ring
    | succ n => simp only [inc, List.sum_cons]; rw [ih n (by simpa using h)]; ring

theorem dec_spec (l : List Nat) (n : Nat) (w : List Nat) (h : dec l n = some w) :
    inc w n = l ∧ w.length = l.length ∧ w.sum + 1 = l.sum ∧ n < l.length := by
  induction l generalizing n w with
  | nil => simp [dec] at h
  | cons x xs ih =>
    cases n with
    | zero =>
      simp only [dec] at h
      split_ifs at h with hx
      injection h with h; subst h
      refine ⟨by simp [inc]; omega, by simp, by simp; omega, by simp⟩
    | succ n =>
      simp only [dec, Option.map_eq_some_iff] at h
      obtain ⟨w', hw', rfl⟩ := h
      obtain ⟨a, b, c, d⟩ := ih n w' hw'
      exact ⟨by simp [inc, a], by simp [b], by simp; omega, by simp; omega⟩

theorem dec_inc (l : List Nat) (n : Nat) (h : n < l.length) : dec (inc l n) n = some l := by
  induction l generalizing n with
  | nil => simp at h
  | cons x xs ih =>
    cases n with
    | zero => simp [inc, dec]
    | succ n => simp [inc, dec, ih n (by simpa using h)]

theorem dec_none_iff (l : List Nat) (n : Nat) (h : n < l.length) : dec l n = none ↔ l[n]? = some 0 := by
  induction l generalizing n with
  | nil => simp at h
  | cons x xs ih =>
    cases n with
    | zero => simp [dec]
    | succ n => simp [dec, ih n (by simpa using h)]

theorem exists_dec_of_sum_pos (l : List Nat) (h : 0 < l.sum) : ∃ n w, dec l n = some w := by
  induction l with
  | nil => simp at h
  | cons x xs ih =>
    by_cases hx : x = 0
    · subst hx
      obtain ⟨n, w, hw⟩ := ih (by simpa using h)
      exact ⟨n + 1, 0 :: w, by simp [dec, hw]⟩
    · exact ⟨0, (x - 1) :: xs, by simp [dec, hx]⟩

/-! ## the duplicate filter -/

theorem mem_foldl_appendNew (l acc : List (List Nat)) (x : List Nat) :
    x ∈ l.foldl appendNew acc ↔ x ∈ acc ∨ x ∈ l := by
  induction l generalizing acc with
  | nil => simp
  | cons y ys ih =>
    simp only [List.foldl_cons, ih, appendNew, List.mem_cons]
    by_cases hy : y ∈ acc
    · simp only [hy, if_true]
      constructor
      · rintro (h | h); exact Or.inl h; exact Or.inr (Or.inr h)
      · rintro (h | h | h); exact Or.inl h; exact Or.inl (h ▸ hy); exact Or.inr h
    · simp only [hy, if_false, List.mem_append, List.mem_singleton]
      tauto

theorem nodup_foldl_appendNew (l acc : List (List Nat)) (h : acc.Nodup) :
    (l.foldl appendNew acc).Nodup := by
  induction l generalizing acc with
  | nil => simpa
  | cons y ys ih =>
    simp only [List.foldl_cons]
    apply ih
    unfold appendNew
    split_ifs with hy
    · exact h
    · rw [List.nodup_append]
      refine ⟨h, by simp, ?_⟩
      intro a ha b hb
      simp at hb
      subst hb
      exact fun e => hy (e ▸ ha)

theorem mem_nextLevel (N : Nat) (lvl : List (List Nat)) (v : List Nat) :
    v ∈ nextLevel N lvl ↔ ∃ old ∈ lvl, ∃ nn < N, v = inc old nn := by
  unfold nextLevel candidates
  rw [mem_foldl_appendNew]
  simp only [List.not_mem_nil, false_or, List.mem_flatMap, List.mem_map, List.mem_range]
  constructor
  · rintro ⟨old, ho, nn, hn, rfl⟩; exact ⟨old, ho, nn, hn, rfl⟩
  · rintro ⟨old, ho, nn, hn, rfl⟩; exact ⟨old, ho, nn, hn, rfl⟩

/-! ## the levels -/

theorem replicate_zero_iff (N : Nat) (v : List Nat) :
    v = List.replicate N 0 ↔ v.length = N ∧ v.sum = 0 := by
  constructor
  · rintro rfl; simp
  · rintro ⟨h1, h2⟩
    subst h1
    induction v with
    | nil => rfl
    | cons x xs ih =>
      simp only [List.sum_cons] at h2
      have hx : x = 0 := by omega
      have hs : xs.sum = 0 := by omega
      rw [hx, List.length_cons, List.replicate_succ]
      exact congrArg (0 :: ·) (ih hs)

/-- **level `k` contains exactly the multi-indices over `N` baths of total order `k`** -/
theorem level_complete (N k : Nat) (v : List Nat) : v ∈ level N k ↔ v.length = N ∧ v.sum = k := by
  induction k generalizing v with
  | zero => simp [level, replicate_zero_iff]
  | succ k ih =>
    simp only [level, mem_nextLevel]
    constructor
    · rintro ⟨old, ho, nn, hn, rfl⟩
      obtain ⟨h1, h2⟩ := (ih old).mp ho
      exact ⟨by rw [inc_length, h1], by rw [inc_sum old nn (by omega), h2]⟩
    · rintro ⟨h1, h2⟩
      obtain ⟨nn, w, hw⟩ := exists_dec_of_sum_pos v (by omega)
      obtain ⟨a, b, c, d⟩ := dec_spec v nn w hw
      exact ⟨w, (ih w).mpr ⟨by omega, by omega⟩, nn, by omega, a.symm⟩

/-- **… each exactly once** -/
theorem level_nodup (N k : Nat) : (level N k).Nodup := by
  cases k with
  | zero => simp [level]
  | succ k => exact nodup_foldl_appendNew _ [] (by simp)

/-- the whole index set: every multi-index of total order at most `depth` -/
theorem hinds_complete (N depth : Nat) (v : List Nat) :
    v ∈ hinds N depth ↔ v.length = N ∧ v.sum ≤ depth := by
  unfold hinds genLevels
  simp only [List.mem_flatten, List.mem_map, List.mem_range]
  constructor
  · rintro ⟨l, ⟨k, hk, rfl⟩, hv⟩
    obtain ⟨a, b⟩ := (level_complete N k v).mp hv
    exact ⟨a, by omega⟩
  · rintro ⟨a, b⟩
    exact ⟨level N v.sum, ⟨v.sum, by omega, rfl⟩, (level_complete N v.sum v).mpr ⟨a, rfl⟩⟩

/-- … exactly once, level by level -/
theorem hinds_nodup (N depth : Nat) : (hinds N depth).Nodup := by
  unfold hinds genLevels
  rw [List.nodup_flatten]
  refine ⟨?_, ?_⟩
  · intro l hl
    simp only [List.mem_map, List.mem_range] at hl
    obtain ⟨k, _, rfl⟩ := hl
    exact level_nodup N k
  · rw [List.pairwise_map]
    apply List.Pairwise.imp _ (List.nodup_range (n := depth + 1))
    intro a b hab
    intro x hxa hxb
    exact hab (((level_complete N a x).mp hxa).2.symm.trans ((level_complete N b x).mp hxb).2)

theorem hinds_level_ordered (N depth : Nat) :
    (hinds N depth).Pairwise (fun a b => a.sum ≤ b.sum) := by
  unfold hinds genLevels
  rw [List.pairwise_flatten]
  refine ⟨?_, ?_⟩
  · intro l hl
    simp only [List.mem_map, List.mem_range] at hl
    obtain ⟨k, _, rfl⟩ := hl
    apply List.pairwise_of_forall_mem_list
    intro a ha b hb
    rw [((level_complete N k a).mp ha).2, ((level_complete N k b).mp hb).2]
  · rw [List.pairwise_map]
    apply List.Pairwise.imp _ (List.pairwise_lt_range (n := depth + 1))
    intro a b hab x hx y hy
    rw [((level_complete N a x).mp hx).2, ((level_complete N b y).mp hy).2]
    omega

/-! ## raising and lowering links -/

theorem findLast_spec (h : List (List Nat)) (b : Nat) (v : List Nat) :
    (findLast h b v = -1 ∧ ∀ i, i < b → h[i]? ≠ some v) ∨
    (∃ m : Nat, findLast h b v = (m : Int) ∧ m < b ∧ h[m]? = some v ∧
      ∀ i, m < i → i < b → h[i]? ≠ some v) := by
  induction b with
  | zero => left; simp [findLast]
  | succ b ih =>
    have e : findLast h (b + 1) v = if h[b]? = some v then (b : Int) else findLast h b v := by
      simp [findLast, List.range_succ, List.foldl_append]
    rw [e]
    by_cases hb : h[b]? = some v
    · right
      exact ⟨b, by simp [hb], by omega, hb, fun i h1 h2 => by omega⟩
    · simp only [hb, if_false]
      rcases ih with ⟨h1, h2⟩ | ⟨m, h1, h2, h3, h4⟩
      · left
        refine ⟨h1, fun i hi => ?_⟩
        by_cases hib : i = b
        · subst hib; exact hb
        · exact h2 i (by omega)
      · right
        refine ⟨m, h1, by omega, h3, fun i hi1 hi2 => ?_⟩
        by_cases hib : i = b
        · subst hib; exact hb
        · exact h4 i hi1 (by omega)

theorem nodup_index_unique (h : List (List Nat)) (hn : h.Nodup) (i j : Nat) (v : List Nat)
    (hi : h[i]? = some v) (hj : h[j]? = some v) : i = j := by
  have hi' := (List.getElem?_eq_some_iff.mp hi)
  have hj' := (List.getElem?_eq_some_iff.mp hj)
  obtain ⟨li, ei⟩ := hi'
  obtain ⟨lj, ej⟩ := hj'
  exact (List.Nodup.getElem_inj_iff hn).mp (ei.trans ej.symm)

theorem findLast_of_index (h : List (List Nat)) (hn : h.Nodup) (b i : Nat) (v : List Nat)
    (hi : h[i]? = some v) (hib : i < b) : findLast h b v = (i : Int) := by
  rcases findLast_spec h b v with ⟨_, h2⟩ | ⟨m, h1, _, h3, _⟩
  · exact absurd hi (h2 i hib)
  · rw [h1, nodup_index_unique h hn m i v h3 hi]

/-- index of a member of the index set -/
theorem exists_index (h : List (List Nat)) (v : List Nat) (hv : v ∈ h) : ∃ i, i < h.length ∧ h[i]? = some v := by
  obtain ⟨i, hi, e⟩ := List.getElem_of_mem hv
  exact ⟨i, hi, by simp [e, hi]⟩

variable (N depth : Nat)

/-- **lowering then raising returns to the start** -/
theorem links_down_up (nn kk : Nat) (m : Nat) (h1 : nm1 (hinds N depth) nn kk = (m : Int)) :
    np1 (hinds N depth) m kk = (nn : Int) := by
  unfold nm1 at h1
  split at h1
  · omega
  · rename_i v hv
    split at h1
    · omega
    · rename_i w hw
      obtain ⟨a, b, c, d⟩ := dec_spec v kk w hw
      rcases findLast_spec (hinds N depth) nn w with ⟨e, _⟩ | ⟨m', e1, e2, e3, _⟩
      · omega
      · have : m' = m := by omega
        subst this
        unfold np1
        simp only [e3, a]
        have hlt : nn < (hinds N depth).length := (List.getElem?_eq_some_iff.mp hv).1
        exact findLast_of_index _ (hinds_nodup N depth) _ nn v hv hlt

/-- **raising then lowering returns to the start** -/
theorem links_up_down (nn kk : Nat) (hk : kk < N) (m : Nat) (h1 : np1 (hinds N depth) nn kk = (m : Int)) :
    nm1 (hinds N depth) m kk = (nn : Int) := by
  unfold np1 at h1
  split at h1
  · omega
  · rename_i v hv
    have hvm : v ∈ hinds N depth := List.mem_of_getElem? hv
    have hvl := ((hinds_complete N depth v).mp hvm).1
    rcases findLast_spec (hinds N depth) (hinds N depth).length (inc v kk) with ⟨e, _⟩ | ⟨m', e1, e2, e3, _⟩
    · omega
    · have : m' = m := by omega
      subst this
      unfold nm1
      simp only [e3, dec_inc v kk (by omega)]
      -- `v` sits before `inc v kk` because the list is ordered by level
      have hlt : nn < m' := by
        by_contra hge
        have hne : nn ≠ m' := by
          intro e; subst e
          rw [hv] at e3
          have := congrArg List.sum (Option.some.inj e3)
          rw [inc_sum v kk (by omega)] at this
          omega
        have hlt' : m' < nn := by omega
        have hpw := hinds_level_ordered N depth
        have hnn : nn < (hinds N depth).length := (List.getElem?_eq_some_iff.mp hv).1
        have := List.pairwise_iff_getElem.mp hpw m' nn e2 hnn hlt'
        rw [(List.getElem?_eq_some_iff.mp hv).2, (List.getElem?_eq_some_iff.mp e3).2,
          inc_sum v kk (by omega)] at this
        omega
      exact findLast_of_index _ (hinds_nodup N depth) _ nn v hv hlt

/-- **the lowering link is absent exactly when the index has nothing to lower** -/
theorem links_boundary_down (nn kk : Nat) (hk : kk < N) (v : List Nat) (hv : (hinds N depth)[nn]? = some v) :
    nm1 (hinds N depth) nn kk = -1 ↔ v[kk]? = some 0 := by
  have hvm : v ∈ hinds N depth := List.mem_of_getElem? hv
  obtain ⟨hvl, hvs⟩ := (hinds_complete N depth v).mp hvm
  unfold nm1
  simp only [hv]
  cases hd : dec v kk with
  | none => simp [(dec_none_iff v kk (by omega)).mp hd]
  | some w =>
    have hne : ¬ v[kk]? = some 0 := fun e => by
      rw [(dec_none_iff v kk (by omega)).mpr e] at hd; exact absurd hd (by simp)
    simp only [hne, iff_false]
    obtain ⟨a, b, c, d⟩ := dec_spec v kk w hd
    have hw : w ∈ hinds N depth := (hinds_complete N depth w).mpr ⟨by omega, by omega⟩
    obtain ⟨i, hi, ei⟩ := exists_index _ w hw
    have hnn : nn < (hinds N depth).length := (List.getElem?_eq_some_iff.mp hv).1
    have hlt : i < nn := by
      by_contra hge
      have hne' : i ≠ nn := by
        intro e; subst e; rw [hv] at ei
        have := congrArg List.sum (Option.some.inj ei); omega
      have := List.pairwise_iff_getElem.mp (hinds_level_ordered N depth) nn i hnn hi (by omega)
      rw [(List.getElem?_eq_some_iff.mp hv).2, (List.getElem?_eq_some_iff.mp ei).2] at this
      omega
    rw [findLast_of_index _ (hinds_nodup N depth) nn i w ei hlt]
    omega

/-- **the raising link is absent exactly at the deepest level** -/
theorem links_boundary_up (nn kk : Nat) (hk : kk < N) (v : List Nat) (hv : (hinds N depth)[nn]? = some v) :
    np1 (hinds N depth) nn kk = -1 ↔ v.sum = depth := by
  have hvm : v ∈ hinds N depth := List.mem_of_getElem? hv
  obtain ⟨hvl, hvs⟩ := (hinds_complete N depth v).mp hvm
  unfold np1
  simp only [hv]
  rcases findLast_spec (hinds N depth) (hinds N depth).length (inc v kk) with ⟨e, h2⟩ | ⟨m, e1, e2, e3, _⟩
  · rw [e]
    simp only [true_iff]
    by_contra hne
    have hw : inc v kk ∈ hinds N depth :=
      (hinds_complete N depth _).mpr ⟨by rw [inc_length, hvl], by rw [inc_sum v kk (by omega)]; omega⟩
    obtain ⟨i, hi, ei⟩ := exists_index _ _ hw
    exact h2 i hi ei
  · rw [e1]
    have hm : inc v kk ∈ hinds N depth := List.mem_of_getElem? e3
    have := ((hinds_complete N depth _).mp hm).2
    rw [inc_sum v kk (by omega)] at this
    constructor
    · intro h; omega
    · intro h; omega

/-- non-vacuity: two baths, level 2 in generation order -/
example : level 2 2 = [[2, 0], [1, 1], [0, 2]] := by decide

end QV.C16
