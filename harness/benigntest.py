"""Import / re-test behaviour-preserving rewrites (the specificity side of seedtest.py).

  benigntest.py import <Cxx> <src_dir>   copy patchH.diff/demoH.py/metaH.json from a sub-agent's output directory to
                                         benign/<Cxx>-h<k>/ after confirming: applies cleanly, the demo passes with and
                                         without it.
  benigntest.py run [<id> ...]           apply each rewrite to /repo, run the property's quick check (expected: exit 0),
                                         record the outcome, undo the patch.
A check that alarms on such a rewrite is looked at by hand: either the tie (extractor / correspondence) is made to accept
the rewrite, or - when the rewrite really changes what the model says - the alarm is the specified behaviour
(`no-failing-input-found`) and is recorded as such in the meta file.
"""
import os, sys, json, glob, time, shutil
sys.path.insert(0, os.path.dirname(os.path.abspath(__file__)))
from seedtest import sh, clean, demo, ROOT, REPO


def do_import(pid, src):
    for pf in sorted(glob.glob(os.path.join(src, "patchH*.diff"))):
        k = os.path.basename(pf)[len("patchH"):-len(".diff")] or "1"
        sid = "%s-h%s" % (pid, k)
        dst = os.path.join(ROOT, "benign", sid)
        if os.path.exists(os.path.join(dst, "patch.diff")) and "--force" not in sys.argv:
            continue
        assert clean(), "/repo has uncommitted changes"
        rc, out = sh(["git", "-C", REPO, "apply", "--check", pf])
        if rc != 0:
            print(sid, "does not apply:", out[-300:]); continue
        dm = os.path.join(src, "demoH%s.py" % (k if os.path.exists(os.path.join(src, "demoH%s.py" % k)) else ""))
        d0 = demo(dm)
        sh(["git", "-C", REPO, "apply", pf])
        try:
            d1 = demo(dm)
        finally:
            sh(["git", "-C", REPO, "checkout", "--", "."])
        if d0[0] != 0 or d1[0] != 0:
            print(sid, "REJECTED: demo without patch rc=%d, with patch rc=%d" % (d0[0], d1[0]), d0[1][-200:], d1[1][-200:])
            continue
        os.makedirs(dst, exist_ok=True)
        shutil.copy(pf, os.path.join(dst, "patch.diff"))
        shutil.copy(dm, os.path.join(dst, "demo.py"))
        meta = {}
        try:
            meta = json.load(open(os.path.join(src, "metaH%s.json" % (k if os.path.exists(os.path.join(src, "metaH%s.json" % k)) else ""))))
        except Exception:
            pass
        head = sh(["git", "-C", REPO, "rev-parse", "--short", "HEAD"])[1].strip()
        meta.update({"property": pid, "rewrite_id": sid, "repo_head_when_confirmed": head,
                     "confirmed": {"demo_without_patch_rc": d0[0], "demo_with_patch_rc": d1[0]}})
        json.dump(meta, open(os.path.join(dst, "meta.json"), "w"), indent=1)
        print(sid, "imported")


def do_run(ids):
    res = {}
    for d in sorted(glob.glob(os.path.join(ROOT, "benign", "*-h*"))):
        sid = os.path.basename(d)
        if ids and sid not in ids and sid.split("-")[0] not in ids:
            continue
        meta = json.load(open(os.path.join(d, "meta.json")))
        pid = meta["property"]
        assert clean(), "/repo has uncommitted changes"
        rc, out = sh(["git", "-C", REPO, "apply", os.path.join(d, "patch.diff")])
        if rc != 0:
            print(sid, "patch no longer applies"); res[sid] = "does-not-apply"; continue
        t0 = time.time()
        try:
            rc, out = sh(["./check", pid, "--tier", "quick"], cwd=ROOT)
        finally:
            sh(["git", "-C", REPO, "checkout", "--", "."])
        viol = [l for l in out.split("\n") if l.startswith("VIOLATION")]
        why = {}
        if viol:
            try:
                r = json.load(open(os.path.join(ROOT, viol[0].split("replay=")[1].split()[0])))
                why = {"oracle_keys": sorted({f["key"] for f in r.get("failures", [])})[:6],
                       "broken": (r.get("broken_obligations") or r.get("theorems_or_ties") or [])[:4],
                       "tie_broken": (r.get("tie_broken") or [])[:3],
                       "correspondence": sorted({x.get("what", "?") for x in (r.get("disagreements") or r.get("correspondence_differences") or [])})[:4]}
            except Exception as e:
                why = {"error": repr(e)}
        meta["check_result"] = {"cmd": "./check %s --tier quick" % pid, "exit": rc, "quiet": rc == 0 and not viol,
                                "line": viol[0] if viol else out.strip().split("\n")[-1][-200:], "why": why, "wall_s": round(time.time() - t0, 1)}
        json.dump(meta, open(os.path.join(d, "meta.json"), "w"), indent=1)
        res[sid] = "QUIET" if rc == 0 and not viol else "ALARM (exit %d)" % rc
        print(sid, res[sid], "|", meta["check_result"]["line"][:150], "|", json.dumps(why)[:300] if why else "")
    return res


if __name__ == "__main__":
    if sys.argv[1] == "import":
        do_import(sys.argv[2], sys.argv[3])
    else:
        do_run([a for a in sys.argv[2:] if not a.startswith("--")])
