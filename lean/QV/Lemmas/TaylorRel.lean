import QV.Model.Taylor
import Mathlib.Algebra.Group.Basic
import Batteries.Data.List.Basic

/-! Relational (simulation) form of the loop-invariant lemmas of `Lemmas/Taylor.lean`: two steppings whose generators
and additions respect a relation `Rel` stay related, for every expansion order, number of steps and refinement.  With
`Rel x y := P x ∧ y = f x` this gives invariants (`P`), conserved functionals, commuting maps and reductions of a large
state space to a small one at once. -/
namespace QV

section
variable {X Y K : Type} [Div K] [NatCast K]
variable (genX : K → X → X) (addX : X → X → X) (genY : K → Y → Y) (addY : Y → Y → Y) (dt : K)
variable (Rel : X → Y → Prop)

theorem taylorLoop_rel
    (hgen : ∀ (l : Nat) x y, Rel x y → Rel (genX (dt / (l : K)) x) (genY (dt / (l : K)) y))
    (hadd : ∀ a a' b b', Rel a b → Rel a' b' → Rel (addX a a') (addY b b')) :
    ∀ cnt l r1 r2 s1 s2, Rel r1 s1 → Rel r2 s2 →
      Rel (taylorLoop genX addX dt l cnt r1 r2) (taylorLoop genY addY dt l cnt s1 s2) := by
  intro cnt
  induction cnt with
  | zero => intro l r1 r2 s1 s2 _ h2; exact h2
  | succ n ih =>
    intro l r1 r2 s1 s2 h1 h2
    simp only [taylorLoop]
    exact ih _ _ _ _ _ (hgen l _ _ h1) (hadd _ _ _ _ h2 (hgen l _ _ h1))

theorem taylorStep_rel
    (hgen : ∀ (l : Nat) x y, Rel x y → Rel (genX (dt / (l : K)) x) (genY (dt / (l : K)) y))
    (hadd : ∀ a a' b b', Rel a b → Rel a' b' → Rel (addX a a') (addY b b')) (L : Nat) (x : X) (y : Y) (h : Rel x y) :
    Rel (taylorStep genX addX dt L x) (taylorStep genY addY dt L y) :=
  taylorLoop_rel genX addX genY addY dt Rel hgen hadd L 1 x x y y h h

theorem taylorSteps_rel
    (hgen : ∀ (l : Nat) x y, Rel x y → Rel (genX (dt / (l : K)) x) (genY (dt / (l : K)) y))
    (hadd : ∀ a a' b b', Rel a b → Rel a' b' → Rel (addX a a') (addY b b')) (L : Nat) :
    ∀ n x y, Rel x y → Rel (taylorSteps genX addX dt L n x) (taylorSteps genY addY dt L n y) := by
  intro n
  induction n with
  | zero => intro x y h; exact h
  | succ n ih =>
    intro x y h
    simp only [taylorSteps]
    exact ih _ _ (taylorStep_rel genX addX genY addY dt Rel hgen hadd L x y h)

/-- the stored trajectories are related point by point -/
theorem taylorTrajectory_rel
    (hgen : ∀ (l : Nat) x y, Rel x y → Rel (genX (dt / (l : K)) x) (genY (dt / (l : K)) y))
    (hadd : ∀ a a' b b', Rel a b → Rel a' b' → Rel (addX a a') (addY b b')) (L Nref : Nat) :
    ∀ nt x y, Rel x y →
      List.Forall₂ Rel (taylorTrajectory genX addX dt L Nref nt x) (taylorTrajectory genY addY dt L Nref nt y) := by
  intro nt
  induction nt with
  | zero => intro x y _; exact List.Forall₂.nil
  | succ n ih =>
    intro x y h
    simp only [taylorTrajectory]
    exact List.Forall₂.cons h (ih _ _ (taylorSteps_rel genX addX genY addY dt Rel hgen hadd L Nref x y h))
end

section
variable {K M : Type} [Div K] [NatCast K] [AddMonoid M] (dt : K)

/-- the stepping of a vanishing generator stands still -/
theorem taylorLoop_zero : ∀ cnt l (s1 s2 : M),
    taylorLoop (fun (_ : K) (_ : M) => (0 : M)) (· + ·) dt l cnt s1 s2 = s2 := by
  intro cnt
  induction cnt with
  | zero => intro l s1 s2; rfl
  | succ n ih => intro l s1 s2; simp only [taylorLoop]; rw [ih, add_zero]

theorem taylorSteps_zero (L : Nat) : ∀ n (s : M),
    taylorSteps (fun (_ : K) (_ : M) => (0 : M)) (· + ·) dt L n s = s := by
  intro n
  induction n with
  | zero => intro s; rfl
  | succ n ih => intro s; simp only [taylorSteps, taylorStep]; rw [taylorLoop_zero, ih]

theorem taylorTrajectory_zero (L Nref : Nat) : ∀ nt (s : M),
    ∀ y ∈ taylorTrajectory (fun (_ : K) (_ : M) => (0 : M)) (· + ·) dt L Nref nt s, y = s := by
  intro nt
  induction nt with
  | zero => intro s y hy; simp [taylorTrajectory] at hy
  | succ n ih =>
    intro s y hy
    simp only [taylorTrajectory, List.mem_cons] at hy
    rcases hy with rfl | hy
    · rfl
    · have := ih _ y hy
      rw [taylorSteps_zero] at this
      exact this
end

/-- from point-by-point relation to a statement about every point of the first list -/
theorem forall₂_left {X Y : Type} {Rel : X → Y → Prop} {xs : List X} {ys : List Y} (h : List.Forall₂ Rel xs ys) :
    ∀ x ∈ xs, ∃ y ∈ ys, Rel x y := by
  induction h with
  | nil => intro x hx; simp at hx
  | cons hab _ ih =>
    intro x hx
    rcases List.mem_cons.mp hx with rfl | hx
    · exact ⟨_, List.mem_cons_self, hab⟩
    · obtain ⟨y, hy, hr⟩ := ih x hx
      exact ⟨y, List.mem_cons_of_mem _ hy, hr⟩

end QV
