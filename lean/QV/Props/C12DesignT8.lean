import QV.Props.C12Design

/-!
# C12 — the design reproduces the isotropic fourth moment, hence `RotationAverage designAvg`
-/
namespace QV.C12
open Finset

theorem T8d_canon (u v : Fin 4) :
    T8 designAvg (canon u).1 (canon u).2.1 (canon u).2.2.1 (canon u).2.2.2 (canon v).1 (canon v).2.1 (canon v).2.2.1 (canon v).2.2.2
      = ((valq u v : ℚ) : ℝ) := by
  rw [T8d_cast, t8q_canon]

theorem T8d_rowform (i j k l a b c d : Fin 3) :
    T8 designAvg i j k l a b c d
      = (if i = j ∧ k = l then T8 designAvg 0 0 1 1 a b c d else 0) + (if i = k ∧ j = l then T8 designAvg 0 1 0 1 a b c d else 0)
        + (if i = l ∧ j = k then T8 designAvg 0 1 1 0 a b c d else 0)
        + (if i = j ∧ j = k ∧ k = l then T8 designAvg 0 0 0 0 a b c d - T8 designAvg 0 0 1 1 a b c d
            - T8 designAvg 0 1 0 1 a b c d - T8 designAvg 0 1 1 0 a b c d else 0) :=
  cubic_form (fun i j k l => T8 designAvg i j k l a b c d) (fun i j k l => T8d_row_z i j k l a b c d)
    (fun i j k l => T8d_row_x i j k l a b c d) i j k l

theorem T8d_colform (i j k l a b c d : Fin 3) :
    T8 designAvg i j k l a b c d
      = (if a = b ∧ c = d then T8 designAvg i j k l 0 0 1 1 else 0) + (if a = c ∧ b = d then T8 designAvg i j k l 0 1 0 1 else 0)
        + (if a = d ∧ b = c then T8 designAvg i j k l 0 1 1 0 else 0)
        + (if a = b ∧ b = c ∧ c = d then T8 designAvg i j k l 0 0 0 0 - T8 designAvg i j k l 0 0 1 1
            - T8 designAvg i j k l 0 1 0 1 - T8 designAvg i j k l 0 1 1 0 else 0) :=
  cubic_form (fun a b c d => T8 designAvg i j k l a b c d) (fun a b c d => T8d_col_z i j k l a b c d)
    (fun a b c d => T8d_col_x i j k l a b c d) a b c d

theorem n00 : T8 designAvg 0 0 1 1 0 0 1 1 = 4 / 30 := by
  have h := T8d_canon 0 0
  have e : valq 0 0 = 4 / 30 := by decide +kernel
  rw [e] at h
  have c1 : canon 0 = (0, 0, 1, 1) := rfl
  have c2 : canon 0 = (0, 0, 1, 1) := rfl
  simp only [c1, c2] at h
  rw [h]; norm_num

theorem n01 : T8 designAvg 0 0 1 1 0 1 0 1 = -1 / 30 := by
  have h := T8d_canon 0 1
  have e : valq 0 1 = -1 / 30 := by decide +kernel
  rw [e] at h
  have c1 : canon 0 = (0, 0, 1, 1) := rfl
  have c2 : canon 1 = (0, 1, 0, 1) := rfl
  simp only [c1, c2] at h
  rw [h]; norm_num

theorem n02 : T8 designAvg 0 0 1 1 0 1 1 0 = -1 / 30 := by
  have h := T8d_canon 0 2
  have e : valq 0 2 = -1 / 30 := by decide +kernel
  rw [e] at h
  have c1 : canon 0 = (0, 0, 1, 1) := rfl
  have c2 : canon 2 = (0, 1, 1, 0) := rfl
  simp only [c1, c2] at h
  rw [h]; norm_num

theorem n03 : T8 designAvg 0 0 1 1 0 0 0 0 = 1 / 15 := by
  have h := T8d_canon 0 3
  have e : valq 0 3 = 1 / 15 := by decide +kernel
  rw [e] at h
  have c1 : canon 0 = (0, 0, 1, 1) := rfl
  have c2 : canon 3 = (0, 0, 0, 0) := rfl
  simp only [c1, c2] at h
  rw [h]; norm_num

theorem n10 : T8 designAvg 0 1 0 1 0 0 1 1 = -1 / 30 := by
  have h := T8d_canon 1 0
  have e : valq 1 0 = -1 / 30 := by decide +kernel
  rw [e] at h
  have c1 : canon 1 = (0, 1, 0, 1) := rfl
  have c2 : canon 0 = (0, 0, 1, 1) := rfl
  simp only [c1, c2] at h
  rw [h]; norm_num

theorem n11 : T8 designAvg 0 1 0 1 0 1 0 1 = 4 / 30 := by
  have h := T8d_canon 1 1
  have e : valq 1 1 = 4 / 30 := by decide +kernel
  rw [e] at h
  have c1 : canon 1 = (0, 1, 0, 1) := rfl
  have c2 : canon 1 = (0, 1, 0, 1) := rfl
  simp only [c1, c2] at h
  rw [h]; norm_num

theorem n12 : T8 designAvg 0 1 0 1 0 1 1 0 = -1 / 30 := by
  have h := T8d_canon 1 2
  have e : valq 1 2 = -1 / 30 := by decide +kernel
  rw [e] at h
  have c1 : canon 1 = (0, 1, 0, 1) := rfl
  have c2 : canon 2 = (0, 1, 1, 0) := rfl
  simp only [c1, c2] at h
  rw [h]; norm_num

theorem n13 : T8 designAvg 0 1 0 1 0 0 0 0 = 1 / 15 := by
  have h := T8d_canon 1 3
  have e : valq 1 3 = 1 / 15 := by decide +kernel
  rw [e] at h
  have c1 : canon 1 = (0, 1, 0, 1) := rfl
  have c2 : canon 3 = (0, 0, 0, 0) := rfl
  simp only [c1, c2] at h
  rw [h]; norm_num

theorem n20 : T8 designAvg 0 1 1 0 0 0 1 1 = -1 / 30 := by
  have h := T8d_canon 2 0
  have e : valq 2 0 = -1 / 30 := by decide +kernel
  rw [e] at h
  have c1 : canon 2 = (0, 1, 1, 0) := rfl
  have c2 : canon 0 = (0, 0, 1, 1) := rfl
  simp only [c1, c2] at h
  rw [h]; norm_num

theorem n21 : T8 designAvg 0 1 1 0 0 1 0 1 = -1 / 30 := by
  have h := T8d_canon 2 1
  have e : valq 2 1 = -1 / 30 := by decide +kernel
  rw [e] at h
  have c1 : canon 2 = (0, 1, 1, 0) := rfl
  have c2 : canon 1 = (0, 1, 0, 1) := rfl
  simp only [c1, c2] at h
  rw [h]; norm_num

theorem n22 : T8 designAvg 0 1 1 0 0 1 1 0 = 4 / 30 := by
  have h := T8d_canon 2 2
  have e : valq 2 2 = 4 / 30 := by decide +kernel
  rw [e] at h
  have c1 : canon 2 = (0, 1, 1, 0) := rfl
  have c2 : canon 2 = (0, 1, 1, 0) := rfl
  simp only [c1, c2] at h
  rw [h]; norm_num

theorem n23 : T8 designAvg 0 1 1 0 0 0 0 0 = 1 / 15 := by
  have h := T8d_canon 2 3
  have e : valq 2 3 = 1 / 15 := by decide +kernel
  rw [e] at h
  have c1 : canon 2 = (0, 1, 1, 0) := rfl
  have c2 : canon 3 = (0, 0, 0, 0) := rfl
  simp only [c1, c2] at h
  rw [h]; norm_num

theorem n30 : T8 designAvg 0 0 0 0 0 0 1 1 = 1 / 15 := by
  have h := T8d_canon 3 0
  have e : valq 3 0 = 1 / 15 := by decide +kernel
  rw [e] at h
  have c1 : canon 3 = (0, 0, 0, 0) := rfl
  have c2 : canon 0 = (0, 0, 1, 1) := rfl
  simp only [c1, c2] at h
  rw [h]; norm_num

theorem n31 : T8 designAvg 0 0 0 0 0 1 0 1 = 1 / 15 := by
  have h := T8d_canon 3 1
  have e : valq 3 1 = 1 / 15 := by decide +kernel
  rw [e] at h
  have c1 : canon 3 = (0, 0, 0, 0) := rfl
  have c2 : canon 1 = (0, 1, 0, 1) := rfl
  simp only [c1, c2] at h
  rw [h]; norm_num

theorem n32 : T8 designAvg 0 0 0 0 0 1 1 0 = 1 / 15 := by
  have h := T8d_canon 3 2
  have e : valq 3 2 = 1 / 15 := by decide +kernel
  rw [e] at h
  have c1 : canon 3 = (0, 0, 0, 0) := rfl
  have c2 : canon 2 = (0, 1, 1, 0) := rfl
  simp only [c1, c2] at h
  rw [h]; norm_num

theorem n33 : T8 designAvg 0 0 0 0 0 0 0 0 = 1 / 5 := by
  have h := T8d_canon 3 3
  have e : valq 3 3 = 1 / 5 := by decide +kernel
  rw [e] at h
  have c1 : canon 3 = (0, 0, 0, 0) := rfl
  have c2 : canon 3 = (0, 0, 0, 0) := rfl
  simp only [c1, c2] at h
  rw [h]; norm_num

theorem m4R_00 : m4R 0 0 = 4 / 30 := by simp [m4R]; try norm_num
theorem m4R_01 : m4R 0 1 = -1 / 30 := by simp [m4R]; try norm_num
theorem m4R_02 : m4R 0 2 = -1 / 30 := by simp [m4R]; try norm_num
theorem m4R_10 : m4R 1 0 = -1 / 30 := by simp [m4R]; try norm_num
theorem m4R_11 : m4R 1 1 = 4 / 30 := by simp [m4R]; try norm_num
theorem m4R_12 : m4R 1 2 = -1 / 30 := by simp [m4R]; try norm_num
theorem m4R_20 : m4R 2 0 = -1 / 30 := by simp [m4R]; try norm_num
theorem m4R_21 : m4R 2 1 = -1 / 30 := by simp [m4R]; try norm_num
theorem m4R_22 : m4R 2 2 = 4 / 30 := by simp [m4R]; try norm_num

theorem rowc0 (a b c d : Fin 3) : T8 designAvg 0 0 1 1 a b c d = m4R 0 0 * isoR 0 a b c d + m4R 0 1 * isoR 1 a b c d + m4R 0 2 * isoR 2 a b c d := by
  rw [T8d_colform]
  simp only [n00, n01, n02, n03, isoR, m4R_00, m4R_01, m4R_02, m4R_10, m4R_11, m4R_12, m4R_20, m4R_21, m4R_22]
  split_ifs <;> norm_num

theorem rowc1 (a b c d : Fin 3) : T8 designAvg 0 1 0 1 a b c d = m4R 1 0 * isoR 0 a b c d + m4R 1 1 * isoR 1 a b c d + m4R 1 2 * isoR 2 a b c d := by
  rw [T8d_colform]
  simp only [n10, n11, n12, n13, isoR, m4R_00, m4R_01, m4R_02, m4R_10, m4R_11, m4R_12, m4R_20, m4R_21, m4R_22]
  split_ifs <;> norm_num

theorem rowc2 (a b c d : Fin 3) : T8 designAvg 0 1 1 0 a b c d = m4R 2 0 * isoR 0 a b c d + m4R 2 1 * isoR 1 a b c d + m4R 2 2 * isoR 2 a b c d := by
  rw [T8d_colform]
  simp only [n20, n21, n22, n23, isoR, m4R_00, m4R_01, m4R_02, m4R_10, m4R_11, m4R_12, m4R_20, m4R_21, m4R_22]
  split_ifs <;> norm_num

theorem rowc3 (a b c d : Fin 3) : T8 designAvg 0 0 0 0 a b c d = 1 / 15 * isoR 0 a b c d + 1 / 15 * isoR 1 a b c d + 1 / 15 * isoR 2 a b c d := by
  rw [T8d_colform]
  simp only [n30, n31, n32, n33, isoR, m4R_00, m4R_01, m4R_02, m4R_10, m4R_11, m4R_12, m4R_20, m4R_21, m4R_22]
  split_ifs <;> norm_num

/-- **the design has the isotropic fourth moment** -/
theorem T8d_eq (i j k l a b c d : Fin 3) :
    T8 designAvg i j k l a b c d = ∑ α, ∑ β, m4R α β * isoR α i j k l * isoR β a b c d := by
  rw [T8d_rowform, rowc0, rowc1, rowc2, rowc3]
  simp only [Fin.sum_univ_three]
  generalize isoR 0 a b c d = x0
  generalize isoR 1 a b c d = x1
  generalize isoR 2 a b c d = x2
  simp only [isoR, m4R_00, m4R_01, m4R_02, m4R_10, m4R_11, m4R_12, m4R_20, m4R_21, m4R_22]
  split_ifs <;> norm_num <;> ring

/-! ## the remaining rotation -/

/-- the three `δδ` tensors are invariant under any matrix with orthonormal rows -/
theorem iso_rot (Q : M3) (hrow : ∀ i j, (∑ p, Q i p * Q j p) = if i = j then 1 else 0) (α : Fin 3) (i j k l : Fin 3) :
    (∑ p, ∑ q, ∑ r, ∑ s, Q i p * Q j q * Q k r * Q l s * isoR α p q r s) = isoR α i j k l := by
  have hr := fun i j => by simpa [Fin.sum_univ_three] using hrow i j
  fin_cases α
  · have e : (∑ p, ∑ q, ∑ r, ∑ s, Q i p * Q j q * Q k r * Q l s * isoR 0 p q r s)
        = (Q i 0 * Q j 0 + Q i 1 * Q j 1 + Q i 2 * Q j 2) * (Q k 0 * Q l 0 + Q k 1 * Q l 1 + Q k 2 * Q l 2) := by
      simp [isoR, Fin.sum_univ_three]; ring
    show (∑ p, ∑ q, ∑ r, ∑ s, Q i p * Q j q * Q k r * Q l s * isoR 0 p q r s) = isoR 0 i j k l
    rw [e, hr i j, hr k l]
    simp only [isoR]
    split_ifs <;> simp_all
  · have e : (∑ p, ∑ q, ∑ r, ∑ s, Q i p * Q j q * Q k r * Q l s * isoR 1 p q r s)
        = (Q i 0 * Q k 0 + Q i 1 * Q k 1 + Q i 2 * Q k 2) * (Q j 0 * Q l 0 + Q j 1 * Q l 1 + Q j 2 * Q l 2) := by
      simp [isoR, Fin.sum_univ_three]; ring
    show (∑ p, ∑ q, ∑ r, ∑ s, Q i p * Q j q * Q k r * Q l s * isoR 1 p q r s) = isoR 1 i j k l
    rw [e, hr i k, hr j l]
    simp only [isoR]
    split_ifs <;> simp_all
  · have e : (∑ p, ∑ q, ∑ r, ∑ s, Q i p * Q j q * Q k r * Q l s * isoR 2 p q r s)
        = (Q i 0 * Q l 0 + Q i 1 * Q l 1 + Q i 2 * Q l 2) * (Q j 0 * Q k 0 + Q j 1 * Q k 1 + Q j 2 * Q k 2) := by
      simp [isoR, Fin.sum_univ_three]; ring
    show (∑ p, ∑ q, ∑ r, ∑ s, Q i p * Q j q * Q k r * Q l s * isoR 2 p q r s) = isoR 2 i j k l
    rw [e, hr i l, hr j k]
    simp only [isoR]
    split_ifs <;> simp_all

theorem Qr_rows (i j : Fin 3) : (∑ p, Qr i p * Qr j p) = if i = j then 1 else 0 := by
  fin_cases i <;> fin_cases j <;> simp [Qr, Fin.sum_univ_three] <;> norm_num

theorem pull4 (w f : Fin 3 → Fin 3 → Fin 3 → Fin 3 → ℝ) (g : ℝ) :
    (∑ p, ∑ q, ∑ r, ∑ s, w p q r s * (g * f p q r s)) = g * ∑ p, ∑ q, ∑ r, ∑ s, w p q r s * f p q r s := by
  simp only [Finset.mul_sum]
  exact Finset.sum_congr rfl (fun p _ => Finset.sum_congr rfl (fun q _ => Finset.sum_congr rfl (fun r _ =>
    Finset.sum_congr rfl (fun s _ => by ring))))

/-- a combination of the three `δδ` tensors is invariant under any matrix with orthonormal rows -/
theorem comb_rot (Q : M3) (hrow : ∀ i j, (∑ p, Q i p * Q j p) = if i = j then 1 else 0) (c0 c1 c2 : ℝ) (i j k l : Fin 3) :
    (∑ p, ∑ q, ∑ r, ∑ s, (Q i p * Q j q * Q k r * Q l s) * (c0 * isoR 0 p q r s + c1 * isoR 1 p q r s + c2 * isoR 2 p q r s))
      = c0 * isoR 0 i j k l + c1 * isoR 1 i j k l + c2 * isoR 2 i j k l := by
  simp only [mul_add, Finset.sum_add_distrib]
  rw [pull4 (fun p q r s => Q i p * Q j q * Q k r * Q l s) (isoR 0) c0,
    pull4 (fun p q r s => Q i p * Q j q * Q k r * Q l s) (isoR 1) c1,
    pull4 (fun p q r s => Q i p * Q j q * Q k r * Q l s) (isoR 2) c2,
    iso_rot Q hrow 0, iso_rot Q hrow 1, iso_rot Q hrow 2]

/-- the isotropic fourth moment is invariant under a rotation of the row indices … -/
theorem formula_rot_rows (Q : M3) (hrow : ∀ i j, (∑ p, Q i p * Q j p) = if i = j then 1 else 0) (i j k l a b c d : Fin 3) :
    (∑ p, ∑ q, ∑ r, ∑ s, (Q i p * Q j q * Q k r * Q l s) * T8 designAvg p q r s a b c d) = T8 designAvg i j k l a b c d := by
  have ht : ∀ p q r s, T8 designAvg p q r s a b c d
      = (m4R 0 0 * isoR 0 a b c d + m4R 0 1 * isoR 1 a b c d + m4R 0 2 * isoR 2 a b c d) * isoR 0 p q r s
      + (m4R 1 0 * isoR 0 a b c d + m4R 1 1 * isoR 1 a b c d + m4R 1 2 * isoR 2 a b c d) * isoR 1 p q r s
      + (m4R 2 0 * isoR 0 a b c d + m4R 2 1 * isoR 1 a b c d + m4R 2 2 * isoR 2 a b c d) * isoR 2 p q r s := by
    intro p q r s
    rw [T8d_eq]
    simp only [Fin.sum_univ_three]
    ring
  simp only [ht]
  exact comb_rot Q hrow _ _ _ i j k l

/-- … and of the column indices -/
theorem formula_rot_cols (Q : M3) (hrow : ∀ i j, (∑ p, Q i p * Q j p) = if i = j then 1 else 0) (i j k l a b c d : Fin 3) :
    (∑ p, ∑ q, ∑ r, ∑ s, (Q a p * Q b q * Q c r * Q d s) * T8 designAvg i j k l p q r s) = T8 designAvg i j k l a b c d := by
  have ht : ∀ p q r s, T8 designAvg i j k l p q r s
      = (m4R 0 0 * isoR 0 i j k l + m4R 1 0 * isoR 1 i j k l + m4R 2 0 * isoR 2 i j k l) * isoR 0 p q r s
      + (m4R 0 1 * isoR 0 i j k l + m4R 1 1 * isoR 1 i j k l + m4R 2 1 * isoR 2 i j k l) * isoR 1 p q r s
      + (m4R 0 2 * isoR 0 i j k l + m4R 1 2 * isoR 1 i j k l + m4R 2 2 * isoR 2 i j k l) * isoR 2 p q r s := by
    intro p q r s
    rw [T8d_eq]
    simp only [Fin.sum_univ_three]
    ring
  simp only [ht]
  exact comb_rot Q hrow _ _ _ a b c d

/-- **the assumed properties are satisfiable**: the explicit design is an averaging functional in the sense of
`RotationAverage` -/
theorem designAvg_isRotationAverage : RotationAverage designAvg where
  add := design_add
  smul := design_smul
  one := design_one
  supp := design_supp
  left := by
    intro Q hQ i j k l a b c d
    rcases hQ with rfl | rfl | rfl
    · have h := design_left Qzq lTab_spec_z lTab_inj_z (fun R => R i a * R j b * R k c * R l d)
      rw [castQz] at h
      exact h
    · have h := design_left Qxq lTab_spec_x lTab_inj_x (fun R => R i a * R j b * R k c * R l d)
      rw [castQx] at h
      exact h
    · have e : (fun R : M3 => mulM Qr R i a * mulM Qr R j b * mulM Qr R k c * mulM Qr R l d)
          = fun R => ∑ p, ∑ q, ∑ r, ∑ s, (Qr i p * Qr j q * Qr k r * Qr l s) * (R p a * R q b * R r c * R s d) := by
        funext R
        simp only [mulM, Fin.sum_univ_three]
        ring
      rw [e, design_sum4]
      exact formula_rot_rows Qr Qr_rows i j k l a b c d
  right := by
    intro Q hQ i j k l a b c d
    rcases hQ with rfl | rfl | rfl
    · have h := design_right Qzq rTab_spec_z rTab_inj_z (fun R => R i a * R j b * R k c * R l d)
      rw [castQz] at h
      exact h
    · have h := design_right Qxq rTab_spec_x rTab_inj_x (fun R => R i a * R j b * R k c * R l d)
      rw [castQx] at h
      exact h
    · have e : (fun R : M3 => mulM R (trM Qr) i a * mulM R (trM Qr) j b * mulM R (trM Qr) k c * mulM R (trM Qr) l d)
          = fun R => ∑ p, ∑ q, ∑ r, ∑ s, (Qr a p * Qr b q * Qr c r * Qr d s) * (R i p * R j q * R k r * R l s) := by
        funext R
        simp only [mulM, trM, Fin.sum_univ_three]
        ring
      rw [e, design_sum4]
      exact formula_rot_cols Qr Qr_rows i j k l a b c d

/-- so the closed formula is the value of an actual averaging functional: for the design itself -/
theorem design_orientational_average (e3 e2 e1 e0 d3 d2 d1 d0 : Fin 3 → ℝ) :
    designAvg (fun R => proj e3 d3 R * proj e2 d2 R * proj e1 d1 R * proj e0 d0 R)
      = ∑ α, ∑ β, F4R e3 e2 e1 e0 α * m4R α β * F4R d3 d2 d1 d0 β :=
  orientational_average designAvg_isRotationAverage e3 e2 e1 e0 d3 d2 d1 d0

end QV.C12
