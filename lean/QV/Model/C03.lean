import QV.Core.Tab
/-!
Model of the electronic part of `Aggregate.build` (quantarhei/builders/aggregate_base.py,
aggregate_states.py): generation of electronic signatures (`elsignatures` with
`_add_excitation`), bands, the Hamiltonian element rule (`ElectronicState.energy`,
`coupling`, vibronic branch with unit Franck–Condon factors), the transition-dipole
rule (`_get_exindx`, `transition_dipole`) and the point-dipole coupling formula
(`builders/interactions.py`).  Molecules are two-level (`omax[i] = 1`).
-/
namespace QV.C03

/-- `out = inlist.copy(); out[i] += 1` -/
def inc : List Nat → Nat → List Nat
  | [], _ => []
  | x :: xs, 0 => (x + 1) :: xs
  | x :: xs, n + 1 => x :: inc xs n

/-- `_add_excitation(inlists, strt, omax)`: items are (signature, last index) -/
def addExcitation (omax : List Nat) (ins : List (List Nat × Nat)) : List (List Nat × Nat) :=
  ins.flatMap fun p =>
    ((List.range p.1.length).filter (fun i => p.2 ≤ i ∧ p.1[i]?.getD 0 < omax[i]?.getD 0)).map
      fun i => (inc p.1 i, i)

/-- signatures with exactly `k` excitations, in generation order -/
def bandItems (omax : List Nat) : Nat → List (List Nat × Nat)
  | 0 => [(List.replicate omax.length 0, 0)]
  | k + 1 => addExcitation omax (bandItems omax k)

def bandSigs (omax : List Nat) (k : Nat) : List (List Nat) := (bandItems omax k).map (·.1)

/-- `elsignatures(mult, mode="LQ")`: bands 0 … mult in order -/
def elsigs (omax : List Nat) (mult : Nat) : List (List Nat) :=
  (List.range (mult + 1)).flatMap (bandSigs omax)

def band (σ : List Nat) : Nat := σ.sum

/-- positions at which two signatures differ -/
def diffSites (a b : List Nat) : List Nat :=
  (List.range a.length).filter (fun i => a[i]?.getD 0 ≠ b[i]?.getD 0)

def absDiffSum (a b : List Nat) : Nat :=
  ((List.range a.length).map fun i => (((a[i]?.getD 0 : Nat) : Int) - ((b[i]?.getD 0 : Nat) : Int)).natAbs).sum

section
variable {α : Type} [Add α] [Mul α] [Zero α]

/-- `ElectronicState.energy()`: sum over molecules of the energy of the level they are in -/
def energy (elen : Nat → Nat → α) (σ : List Nat) : α :=
  ((List.range σ.length).map fun k => elen k (σ[k]?.getD 0)).sum

/-- `Aggregate.coupling(s1, s2)` for two different states of the built aggregate (unit FC factors, `full=False`);
`idx` are the positions of the two signatures in `elsigs` -/
def coupling (nmono : Nat) (J : Nat → Nat → α) (σ1 σ2 : List Nat) (idx1 idx2 : Nat) : α :=
  if nmono > 1 then
    if band σ1 = band σ2 then
      if band σ1 = 1 then
        if idx1 ≥ 1 ∧ idx2 ≥ 1 then J (idx1 - 1) (idx2 - 1) else 0
      else
        match diffSites σ1 σ2 with
        | [kk, ll] => if absDiffSum σ1 σ2 = 2 then J kk ll else 0
        | _ => 0
    else 0
  else 0

/-- `_get_exindx`: the molecule whose state differs, for bands differing by one or two -/
def exIndex (σ1 σ2 : List Nat) : Option Nat :=
  let b1 := (band σ1 : Int)
  let b2 := (band σ2 : Int)
  if (b1 - b2).natAbs ≠ 1 ∧ (b1 - b2).natAbs ≠ 2 then none
  else match diffSites σ1 σ2 with
    | [k] => some k
    | _ => none

/-- `transition_dipole(s1, s2)` (one Cartesian component), unit FC factor -/
def transDipole (d : Nat → α) (σ1 σ2 : List Nat) : α :=
  match exIndex σ1 σ2 with
  | some k => d k
  | none => 0
end

section
variable {α : Type} [Add α] [Sub α] [Mul α] [Div α] [Zero α]
/-- `dipole_dipole_interaction` up to the constant prefactor: `(d1·d2 − 3 (d1·n)(d2·n)) / R³` with
`n = R/|R|` written with `R`, `R²` and `|R|³`: `(d1·d2 − 3 (d1·R)(d2·R)/R²)/|R|³` -/
def pointDipole (three : α) (d1 d2 R : Fin 3 → α) (r3 : α) : α :=
  let dot := fun (a b : Fin 3 → α) => sumFin 3 (fun i => a i * b i)
  (dot d1 d2 - three * (dot d1 R) * (dot d2 R) / dot R R) / r3
end

end QV.C03
