import QV.Model.C14
import Mathlib.Analysis.SpecialFunctions.Exponential
import Mathlib.LinearAlgebra.Matrix.PosDef
import Mathlib.Algebra.Order.Star.Real
import Mathlib.Algebra.BigOperators.Group.List.Basic
import Mathlib.Algebra.Order.BigOperators.Group.List
import Mathlib.Tactic.Ring
import Mathlib.Tactic.Linarith
import Mathlib.Tactic.FieldSimp

/-!
# C14 — initial and thermal states are valid Boltzmann density matrices
-/
namespace QV.C14

/-! ## the shifted algorithm never divides by zero, whatever `exp` does on negative arguments -/

theorem listMin_mem_le (l : List ℝ) (hl : l ≠ []) : listMin l ∈ l ∧ ∀ x ∈ l, listMin l ≤ x := by
  cases l with
  | nil => exact absurd rfl hl
  | cons a as =>
    unfold listMin
    suffices h : ∀ (as : List ℝ) (m : ℝ), (as.foldl (fun m y => if y < m then y else m) m ∈ m :: as) ∧
        (as.foldl (fun m y => if y < m then y else m) m ≤ m) ∧
        ∀ x ∈ as, as.foldl (fun m y => if y < m then y else m) m ≤ x from
      ⟨(h as a).1, fun x hx => by
        rcases List.mem_cons.mp hx with rfl | hx
        · exact (h as _).2.1
        · exact (h as a).2.2 x hx⟩
    intro as
    induction as with
    | nil => intro m; simp
    | cons y ys ih =>
      intro m
      simp only [List.foldl_cons]
      obtain ⟨i1, i2, i3⟩ := ih (if y < m then y else m)
      refine ⟨?_, ?_, ?_⟩
      · rcases List.mem_cons.mp i1 with e | e
        · rw [e]; split_ifs <;> simp
        · simp [e]
      · split_ifs at i2 ⊢ with hy <;> linarith
      · intro x hx
        rcases List.mem_cons.mp hx with rfl | hx
        · by_cases hy : x < m
          · simp only [hy, if_true] at i2 ⊢; exact i2
          · simp only [hy, if_false] at i2 ⊢; linarith [not_lt.mp hy]
        · exact i3 x hx

/-- the exponents chosen by `_thermal_population` are all `≤ 0` and one of them is exactly `0` -/
theorem plan_exponents (temp kBT : ℝ) (ht : temp ≠ 0) (hk : 0 < kBT) (diagH subtract : List ℝ) (start : Nat)
    (hne : (diagH.drop start).zipWith (· - ·) subtract ≠ []) :
    let p := thermalPlan temp kBT diagH subtract start
    p.zeroT = false ∧ (∀ x ∈ p.exps, x ≤ 0) ∧ (0 : ℝ) ∈ p.exps := by
  simp only [thermalPlan, ht, if_false]
  obtain ⟨hm, hle⟩ := listMin_mem_le _ hne
  refine ⟨trivial, ?_, ?_⟩
  · intro x hx
    simp only [List.mem_map] at hx
    obtain ⟨e, he, rfl⟩ := hx
    have := hle e he
    apply div_nonpos_of_nonpos_of_nonneg _ hk.le
    linarith
  · simp only [List.mem_map]
    exact ⟨_, hm, by simp⟩

/-- **no `0/0` at any positive temperature**: for ANY implementation `ef` of the exponential with `ef 0 = 1`
and `ef x ≥ 0` (it may underflow to `0` anywhere below zero), the normalisation of the shifted algorithm is `≥ 1` -/
theorem no_zero_division (ef : ℝ → ℝ) (h0 : ef 0 = 1) (hpos : ∀ x, 0 ≤ ef x) (xs : List ℝ) (hz : (0 : ℝ) ∈ xs) :
    1 ≤ (xs.map ef).sum := by
  induction xs with
  | nil => simp at hz
  | cons x rest ih =>
    simp only [List.map_cons, List.sum_cons]
    have hrest : 0 ≤ (rest.map ef).sum := List.sum_nonneg (by intro y hy; simp only [List.mem_map] at hy; obtain ⟨z, _, rfl⟩ := hy; exact hpos z)
    rcases List.mem_cons.mp hz with e | e
    · rw [← e, h0]; linarith
    · have := ih e; linarith [hpos x]

/-- without the shift the normalisation can be `0`: an `exp` that underflows below `−745` and optical
energies at a few kelvin (the former defect) -/
theorem unshifted_underflow_witness :
    ∃ (ef : ℝ → ℝ), ef 0 = 1 ∧ (∀ x, 0 ≤ ef x) ∧ (([-3000, -3100] : List ℝ).map ef).sum = 0 := by
  refine ⟨fun x => if x < -745 then 0 else 1, by norm_num, fun x => by dsimp only; split_ifs <;> norm_num, by norm_num⟩

/-! ## Boltzmann populations -/

/-- unit trace -/
theorem populations_sum_one (xs : List ℝ) (hne : xs ≠ []) :
    (populations Real.exp { zeroT := false, start := 0, exps := xs }).sum = 1 := by
  simp only [populations, Bool.false_eq_true, if_false]
  have hpos : 0 < (xs.map Real.exp).sum := by
    cases xs with
    | nil => exact absurd rfl hne
    | cons a as =>
      simp only [List.map_cons, List.sum_cons]
      have : 0 ≤ (as.map Real.exp).sum := List.sum_nonneg (by
        intro y hy; simp only [List.mem_map] at hy; obtain ⟨z, _, rfl⟩ := hy; exact (Real.exp_pos z).le)
      linarith [Real.exp_pos a]
  have : ∀ (l : List ℝ) (c : ℝ), (l.map (· / c)).sum = l.sum / c := by
    intro l c
    induction l with
    | nil => simp
    | cons a as ih => simp [ih, add_div]
  rw [this, div_self (ne_of_gt hpos)]

/-- **populations are in the ratio `exp(−(E_a − E_b)/kT)`** (the common shift cancels) -/
theorem boltzmann_ratio (Ea Eb emin kBT Z : ℝ) (hZ : Z ≠ 0) :
    (Real.exp (-(Ea - emin) / kBT) / Z) / (Real.exp (-(Eb - emin) / kBT) / Z) = Real.exp (-(Ea - Eb) / kBT) := by
  have hb : Real.exp (-(Eb - emin) / kBT) ≠ 0 := (Real.exp_pos _).ne'
  rw [div_div_div_cancel_right₀ hZ, ← Real.exp_sub]
  congr 1; ring

/-- all population at zero temperature -/
theorem zero_temperature (kBT : ℝ) (diagH subtract : List ℝ) (start : Nat) :
    populations Real.exp (thermalPlan 0 kBT diagH subtract start) = [1] := by
  simp [thermalPlan, populations]

/-! ## positivity -/
section
open Matrix
variable {n : Type} [Fintype n] [DecidableEq n]

/-- a diagonal matrix of non-negative populations is positive semidefinite -/
theorem thermal_psd (p : n → ℝ) (hp : ∀ i, 0 ≤ p i) : (Matrix.diagonal p).PosSemidef :=
  Matrix.posSemidef_diagonal_iff.mpr hp

/-- impulsive excitation `|d| ρ |d|` of a positive semidefinite state is positive semidefinite -/
theorem impulsive_psd (ρ A : Matrix n n ℝ) (hρ : ρ.PosSemidef) : (A * ρ * Aᴴ).PosSemidef :=
  hρ.mul_mul_conjTranspose_same A

/-- the same physical state in another (orthogonal) basis is still positive semidefinite with the same trace -/
theorem psd_basis_independent (ρ S : Matrix n n ℝ) (hρ : ρ.PosSemidef) : (Sᴴ * ρ * S).PosSemidef :=
  hρ.conjTranspose_mul_mul_same S
end

end QV.C14
