"""C05 - energy-units management is transparent and contexts restore units."""
import ast
from qvh.core import *
from qvh import extract as X

DRIVER = "C05"
PROPS = "QV.Props.C05"


def extract(ck):
    try:
        msrc = X.read_source(REPO, "quantarhei/core/managers.py")
        usrc = X.read_source(REPO, "quantarhei/core/units.py")
        units = X.literal(msrc, "units", cls="Manager")
        eunits = units["energy"]
        # keys (and which factors are literally 1.0) of conversion_facs_energy
        keys, ones = None, []
        for n in ast.parse(usrc).body:
            if isinstance(n, ast.Assign) and isinstance(n.targets[0], ast.Name) and n.targets[0].id == "conversion_facs_energy":
                if not isinstance(n.value, ast.Dict):
                    raise X.ExtractError("conversion_facs_energy is not a dict display")
                keys = [ast.literal_eval(k) for k in n.value.keys]
                ones = [ast.literal_eval(k) for k, v in zip(n.value.keys, n.value.values)
                        if isinstance(v, ast.Constant) and v.value == 1.0]
        if keys is None:
            raise X.ExtractError("conversion_facs_energy not found")
        rec = []
        for fname in ("convert_energy_2_internal_u", "convert_energy_2_current_u"):
            fn = X.find_def(ast.parse(msrc), fname, cls="Manager")
            r = []
            for n in ast.walk(fn):
                if isinstance(n, ast.If) and isinstance(n.test, ast.Compare) and ast.unparse(n.test.left) == "units" \
                        and isinstance(n.test.ops[0], ast.Eq) and isinstance(n.test.comparators[0], ast.Constant):
                    r.append(n.test.comparators[0].value)
            rec.append(sorted(r))
        if rec[0] != rec[1]:
            raise X.ExtractError("the two conversion directions treat different units reciprocally: %s" % rec)
        S, L = X.lean_str, X.lean_list
        ck.gen("C05", "namespace QV.Gen.C05\n"
               "def energyUnits : List String := %s\n"
               "def reciprocalUnits : List String := %s\n"
               "def facKeys : List String := %s\n"
               "def unitFactors : List String := %s\n"
               "end QV.Gen.C05\n" % (L(eunits, S), L(rec[0], S), L(keys, S), L(ones, S)))
        ck.gen_facts("C05", [eunits, rec[0]])
        return eunits, rec[0]
    except (X.ExtractError, Exception) as e:
        r = ck.tie_fallback("C05", "extraction of the unit tables failed: %r" % (e,))
        return (r[0], r[1]) if r else None


class Boom(Exception):
    pass


def run(ck):
    import numpy
    qr = import_quantarhei()
    from quantarhei import Manager, energy_units, Molecule, Aggregate, Mode, TimeAxis, FrequencyAxis, CorrelationFunction, Hamiltonian
    from quantarhei.core import units as qunits
    rng = ck.rng
    m = Manager()
    ck.rule = ("(i) every ordered pair of the supported energy units x every units-managed accessor (set under u, read under u') "
               "compared with the exact rational conversion computed by the model from the code's own factor table (rel 1e-12); "
               "(ii) random programs of nested `with energy_units(..)` blocks with exceptions raised inside, raw set/unset, unknown "
               "units and library calls; current units, nesting counter and flag compared exactly with the model after every event, "
               "and every library call must leave the units as it found them; non-trivial = pair with u != u' / program with nesting "
               ">= 2 and an exception or a library call")
    ck.trusted += ["harness/c05.py + extractor (Manager.units, keys of conversion_facs_energy, reciprocal branch in both conversions)",
                   "the numeric conversion factors themselves are taken from the code (symbolic non-zero constants in the theorems)",
                   "hand model of energy_units.__enter__/__exit__ and set/unset_current_units validated on generated programs"]
    ext = extract(ck)
    ck.prove(PROPS, extra_modules=["QV.Drive.C05"], also=["QV.Props.C05Composite", "QV.Props.C05HandSwitch"])
    eunits = list(m.units["energy"])
    lines, impl, tol = [], [], []

    def emit(l, o, t=None):
        lines.append(l); impl.append(o); tol.append(t)

    for u in eunits:
        emit("fac %s %s" % (u, frac(qunits.conversion_facs_energy[u])), "ok")
    # "the exact conversion between the two units" is a physical statement: the factors of the code's table are compared with values
    # written down here from the definitions of the units (CODATA constants of scipy; internal unit: rad/fs, hbar = 1)
    import scipy.constants as _c
    _cm = 2.0 * _c.pi * _c.c * 100.0 * 1.0e-15
    ref_fac = {"int": 1.0, "1/fs": 1.0, "1/cm": _cm, "THz": 2.0 * _c.pi * 1.0e12 * 1.0e-15, "eV": _c.e / _c.hbar * 1.0e-15,
               "meV": 1.0e-3 * _c.e / _c.hbar * 1.0e-15, "J": 1.0e-15 / _c.hbar, "SI": 1.0e-15 / _c.hbar, "nm": 1.0 / (1.0e7 * _cm),
               "Ha": _c.physical_constants["Hartree energy"][0] / _c.hbar * 1.0e-15,
               "a.u.": _c.physical_constants["Hartree energy"][0] / _c.hbar * 1.0e-15}
    for u in eunits:
        ck.case(("factor", u), nontrivial=(u not in ("int", "1/fs")), accessor="factor-table")
        if u not in ref_fac:
            ck.extra.setdefault("units_without_reference_factor", []).append(u)
            continue
        try:
            got = float(qunits.conversion_facs_energy[u])
        except Exception as e:
            ck.fail("factor:%s" % u, "supported energy unit has no conversion factor: %r" % (e,), {"unit": u})
            continue
        rel = 1e-6 if u in ("Ha", "a.u.") else 1e-9      # the Hartree value of the code is the CODATA-2014 one
        if abs(got - ref_fac[u]) > rel * abs(ref_fac[u]):
            ck.fail("factor:%s" % u, "conversion factor of the energy unit %s differs from the definition of the unit" % u, {"unit": u}, got, ref_fac[u])

    # ---- (i) pair x accessor matrix --------------------------------------------------------------
    ta = TimeAxis(0.0, 100, 1.0)

    def acc_molecule(x, u, u2):
        with energy_units(u):
            mol = Molecule([0.0, x])
            mol.get_energy(1)                 # an earlier read under other units must not matter
        with energy_units(u2):
            return mol.get_energy(1)

    def acc_molecule_set(x, u, u2):
        mol = Molecule([0.0, 1.0])
        with energy_units(u):
            mol.set_energy(1, x)
        with energy_units(u2):
            return mol.get_energy(1)

    def acc_mode(x, u, u2):
        with energy_units(u):
            md = Mode(frequency=x)
            md.get_energy(0, no_conversion=False)
        with energy_units(u2):
            return md.get_energy(0, no_conversion=False)

    def acc_coupling(x, u, u2):
        agg = Aggregate([Molecule([0.0, 1.0]), Molecule([0.0, 1.1])])
        with energy_units(u):
            agg.set_resonance_coupling(0, 1, x)
            agg.get_resonance_coupling(0, 1)
        with energy_units(u2):
            return agg.get_resonance_coupling(0, 1)

    def acc_hamiltonian(x, u, u2):
        with energy_units(u):
            h = Hamiltonian(data=numpy.array([[0.0, 0.0], [0.0, x]]))
            h.data
        with energy_units(u2):
            d = h.data
        if d[0, 0] != 0 or d[0, 1] != 0:
            raise AssertionError("zero elements changed: %r" % (d,))
        return d[1, 1]

    def acc_reorg(x, u, u2):
        with energy_units(u):
            cf = CorrelationFunction(ta, dict(ftype="OverdampedBrownian", reorg=x, cortime=100.0, T=300.0))
        with energy_units(u2):
            return cf.get_reorganization_energy()

    def acc_convert(x, u, u2):
        return qr.convert(x, u, to=u2)

    def acc_convert_ctx(x, u, u2):
        with energy_units(u2):
            return qr.convert(x, u)

    def acc_global(x, u, u2):
        # units switched globally (no context manager), value supplied, units reset to the default, value read in a context
        key = "energy" if int(x * 64) % 2 == 0 else "frequency"
        try:
            qr.set_current_units({key: u})
            mol = Molecule([0.0, x])
        finally:
            qr.set_current_units()
        if m.get_current_units("energy") != m.internal_units["energy"]:
            raise AssertionError("set_current_units() did not reset the units: %r" % (m.get_current_units("energy"),))
        with energy_units(u2):
            return mol.get_energy(1)

    def acc_in_current(x, u, u2):
        from quantarhei.core.units import in_current_units
        with energy_units(u2):
            return in_current_units(x, u)

    def acc_rwa(x, u, u2):
        # rotating-wave energies of a Hamiltonian, read under the supplying unit first and then under another one
        with energy_units(u):
            h = Hamiltonian(data=numpy.array([[0.0, 0.0], [0.0, x]]))
            h.set_rwa([0, 1])
            h.get_RWA_skeleton()
        with energy_units(u2):
            sk = h.get_RWA_skeleton()
            dd = h.get_RWA_data()
        if abs(dd[1, 1]) > 1e-9 * abs(sk[1]):
            raise AssertionError("get_RWA_data does not subtract the RWA energy in the current units: %r" % (dd,))
        return sk[1]

    def acc_array_kept(x, u, u2):
        # the caller's ARRAY is changed after it was handed over: what was stored is the value at the time it was supplied
        which = int(x * 64) % 3
        arr = numpy.array([0.0, x]) if which == 0 else numpy.array([[0.0, 0.0], [0.0, x]])
        with energy_units(u):
            if which == 0:
                ob = Molecule(arr)
            elif which == 1:
                ob = Hamiltonian(data=arr)
            else:
                ob = Aggregate([Molecule([0.0, 1.0]), Molecule([0.0, 1.1])])
                arr = numpy.array([[0.0, x], [x, 0.0]])
                ob.set_resonance_coupling_matrix(arr)
        arr *= 3.0
        arr[...] = arr + 1.0
        with energy_units(u2):
            if which == 0:
                return ob.get_energy(1)
            if which == 1:
                return ob.data[1, 1]
            return ob.get_resonance_coupling(0, 1)

    accessors = [("Hamiltonian.set_rwa/get_RWA_skeleton (read twice)", acc_rwa), ("array supplied, then changed by the caller", acc_array_kept),
                 ("Molecule.__init__/get_energy", acc_molecule), ("Molecule.set_energy/get_energy", acc_molecule_set),
                 ("set_current_units(global)/get_energy", acc_global), ("in_current_units", acc_in_current),
                 ("Mode.__init__/get_energy", acc_mode), ("Aggregate.set/get_resonance_coupling", acc_coupling),
                 ("Hamiltonian.data", acc_hamiltonian), ("CorrelationFunction reorg", acc_reorg),
                 ("convert(to=)", acc_convert), ("convert in context", acc_convert_ctx)]
    pairs = [(u, v) for u in eunits for v in eunits]
    if ck.quick:
        rng.shuffle(pairs)
        pairs = pairs[:45] + [("nm", "1/cm"), ("1/cm", "nm"), ("nm", "nm"), ("eV", "nm")]
    for (u, u2) in pairs:
        for name, f in accessors:
            if ck.quick and rng.random() < 0.5:
                continue
            x = rng.choice([0.5, 2.0, 12.5, 500.0, 12000.0, 0.015625])
            before = m.get_current_units("energy")
            try:
                got = float(f(x, u, u2))
            except Exception as e:
                ck.fail("accessor:raises:%s" % name, "accessor raised %r" % (e,), {"accessor": name, "u": u, "u2": u2, "x": x})
                continue
            if m.get_current_units("energy") != before:
                ck.fail("call:%s" % name, "accessor changed the active units", {"accessor": name, "u": u, "u2": u2})
            fu, fv = Fraction(float(qunits.conversion_facs_energy[u])), Fraction(float(qunits.conversion_facs_energy[u2]))
            xi = (1 / Fraction(x)) / fu if u == "nm" else Fraction(x) * fu
            want = float((1 / xi) / fv if u2 == "nm" else xi / fv)
            ck.case((name, u, u2, x), nontrivial=(u != u2), accessor=name.split(".")[0].split("(")[0],
                    reciprocal=("nm" in (u, u2)), sample={"accessor": name, "supplied_in": u, "read_in": u2, "x": x, "got": got} if len(ck.samples) < 2 else None)
            if abs(got - want) > 1e-12 * abs(want):
                ck.fail("convert:%s" % name, "value read under %s differs from the exact conversion of the value supplied under %s" % (u2, u),
                        {"accessor": name, "u": u, "u2": u2, "x": x}, got, want)
            emit("conv %s %s %s" % (u, u2, frac(x)), frac(got), 1e-12)
    # ---- (i-a) accessors that combine several stored energies (state energies, transition energies, reorganisation energies of a
    # system-bath interaction): the value read is the exact conversion of the combined internal quantity -------------------
    from quantarhei.builders.aggregate_states import ElectronicState, VibronicState
    from quantarhei import SpectralDensity

    def to_int(xv, uu):
        fu_ = Fraction(float(qunits.conversion_facs_energy[uu]))
        return (1 / Fraction(xv)) / fu_ if uu == "nm" else Fraction(xv) * fu_

    def from_int(ev, uu):
        fv_ = Fraction(float(qunits.conversion_facs_energy[uu]))
        return float((1 / ev) / fv_ if uu == "nm" else ev / fv_)

    cpairs = [(u, v) for u in eunits for v in eunits]
    if ck.quick:
        rng.shuffle(cpairs)
        cpairs = cpairs[:14] + [("1/cm", "nm"), ("nm", "nm"), ("eV", "nm"), ("nm", "1/cm")]
    for (u, u2) in cpairs:
        x1, x2, xm = rng.choice([500.0, 12.5, 2.0]), rng.choice([640.0, 16.0, 3.0]), rng.choice([40.0, 1.0, 0.25])
        if u == "nm":
            xm = xm * 50.0
        inpc = {"u": u, "u2": u2, "site_energies": [x1, x2], "mode_energy": xm}
        try:
            with energy_units(u):
                ma, mb = Molecule([0.0, x1]), Molecule([0.0, x2])
                mdc = Mode(frequency=xm)
                ma.add_Mode(mdc); mdc.set_nmax(0, 2); mdc.set_nmax(1, 2); mdc.set_HR(1, 0.1)
                ac_ = Aggregate([ma, mb])
            ac_.build(mult=2)
            e1, e2, om_ = to_int(x1, u), to_int(x2, u), to_int(xm, u)
            Ng = int(ac_.Nb[0]); N1 = int(ac_.Nb[0] + ac_.Nb[1])
            # first state of the two-exciton band and a state of the one-exciton band, identified by their internal energies
            Hd = [Fraction(float(v)) for v in numpy.real(numpy.diag(numpy.array(ac_.HH)))]
            readings = []
            with energy_units(u2):
                readings.append(("ElectronicState((1,1)).energy()", float(ElectronicState(ac_, (1, 1)).energy()), e1 + e2))
                readings.append(("ElectronicState((1,0)).energy(vsig=(1,))", float(ElectronicState(ac_, (1, 0)).energy(vsig=(1,))), e1 + om_))
                readings.append(("ElectronicState((0,1)).energy()", float(ElectronicState(ac_, (0, 1)).energy()), e2))
                vs_ = VibronicState(ElectronicState(ac_, (1, 0)), (1,))
                readings.append(("VibronicState((1,0),(1,)).energy()", float(vs_.energy()), e1 + om_))
                readings.append(("VibronicState((1,0),(1,)).vibenergy()", float(vs_.vibenergy()), om_))
                for (nf_, ni_) in ((N1, Ng), (N1, Ng + 1), (Ng + 1, Ng), (Ng, 0)):
                    if Hd[nf_] != Hd[ni_]:
                        readings.append(("Aggregate.get_transition(%d,%d)" % (nf_, ni_), float(ac_.get_transition(nf_, ni_)[0]), Hd[nf_] - Hd[ni_]))
        except Exception as e:
            ck.fail("accessor:raises:composite", "a composite accessor raised %r" % (e,), inpc)
            continue
        for nm_, got_, eint in readings:
            want_ = from_int(eint, u2)
            ck.case(("composite", nm_, u, u2, x1, x2, xm), nontrivial=(u != u2), accessor=nm_.split("(")[0], reciprocal=("nm" in (u, u2)))
            if abs(got_ - want_) > 1e-9 * abs(want_):
                ck.fail("convert:%s" % nm_.split("(")[0], "value read under %s differs from the exact conversion of the stored quantity (%s)" % (u2, nm_),
                        dict(inpc, accessor=nm_), got_, want_)
    # ---- (i-b) frequency axes: supplied in one unit, converted to a time axis and back inside another -------------
    from quantarhei import FrequencyAxis
    lin = [u for u in eunits if u != "nm"]
    apairs = [(u, v) for u in lin for v in lin]
    if ck.quick:
        rng.shuffle(apairs)
        apairs = apairs[:24]
    for (u, u2) in apairs:
        x = rng.choice([2.0, 12.5, 500.0, 11000.0])
        atype = rng.choice(["complete", "upper-half"])
        name = "FrequencyAxis->TimeAxis->FrequencyAxis(%s)" % atype
        before = m.get_current_units("energy")
        try:
            with energy_units(u):
                w = FrequencyAxis(x, 8, x / 16.0, atype=atype)
                d1 = numpy.array(w.data).copy()
            with energy_units("int"):
                t_ref = w.get_TimeAxis()
                fs_ref = float(t_ref.frequency_start)
            with energy_units(u2):
                t = w.get_TimeAxis()
                w2 = t.get_FrequencyAxis()
                d2 = numpy.array(w2.data).copy()
            fs = float(t.frequency_start)
        except Exception as e:
            ck.fail("accessor:raises:%s" % name, "axis conversion raised %r" % (e,), {"accessor": name, "u": u, "u2": u2, "x": x})
            continue
        if m.get_current_units("energy") != before:
            ck.fail("call:%s" % name, "axis conversion changed the active units", {"accessor": name, "u": u, "u2": u2})
        fu, fv = float(qunits.conversion_facs_energy[u]), float(qunits.conversion_facs_energy[u2])
        want = d1 * fu / fv
        ck.case((name, u, u2, x), nontrivial=(u != u2), accessor="FrequencyAxis", reciprocal=False)
        if d2.shape != want.shape or numpy.abs(d2 - want).max() > 1e-9 * numpy.abs(want).max():
            ck.fail("convert:%s" % name, "frequency axis supplied under %s, converted to a time axis and back under %s, is not the exact conversion" % (u, u2),
                    {"accessor": name, "u": u, "u2": u2, "x": x}, d2.tolist()[:3], want.tolist()[:3])
        if abs(fs - fs_ref) > 1e-12 * max(1.0, abs(fs_ref)):
            ck.fail("stored:%s" % name, "the central frequency stored on the time axis depends on the units active at the call",
                    {"accessor": name, "u": u, "u2": u2, "x": x}, fs, fs_ref)
    # ---- (ii) context programs ------------------------------------------------------------------------
    mol_a = Molecule([0.0, 1.0]); mol_b = Molecule([0.0, 1.2])
    with energy_units("1/cm"):
        cfa = CorrelationFunction(ta, dict(ftype="OverdampedBrownian", reorg=20.0, cortime=100.0, T=300.0))
    mol_a.set_transition_environment((0, 1), cfa); mol_b.set_transition_environment((0, 1), cfa)
    mol_a.set_dipole(0, 1, [1.0, 0.0, 0.0]); mol_b.set_dipole(0, 1, [0.0, 1.0, 0.0])
    built = Aggregate([mol_a, mol_b]); built.set_resonance_coupling(0, 1, 0.01); built.build()

    def lib_build():
        a = Aggregate([Molecule([0.0, 1.0]), Molecule([0.0, 1.2])]); a.set_resonance_coupling(0, 1, 0.01); a.build()

    def lib_build_mult2():
        a = Aggregate([Molecule([0.0, 1.0]), Molecule([0.0, 1.2])]); a.build(mult=2)

    def lib_relax():
        built.get_RelaxationTensor(ta, relaxation_theory="standard_Redfield")

    def lib_relax_td():
        built.get_RelaxationTensor(ta, relaxation_theory="standard_Redfield", time_dependent=True)

    def lib_ham():
        built.get_Hamiltonian().data

    def lib_cf():
        c1 = CorrelationFunction(ta, dict(ftype="OverdampedBrownian", reorg=0.01, cortime=50.0, T=300.0))
        c2 = CorrelationFunction(ta, dict(ftype="OverdampedBrownian", reorg=0.02, cortime=80.0, T=300.0))
        (c1 + c2).get_reorganization_energy()

    def lib_faxis():
        ta.get_FrequencyAxis().data

    def lib_convert():
        qr.convert(1.0, "1/cm", to="eV")

    def lib_abs():
        from quantarhei import AbsSpectrumCalculator
        ac = AbsSpectrumCalculator(TimeAxis(0.0, 200, 1.0), system=built)
        with energy_units("1/cm"):
            ac.bootstrap(rwa=10000.0)
        ac.calculate()

    def lib_dm():
        built.get_DensityMatrix(condition_type="thermal", temperature=300.0)

    def lib_sd():
        from quantarhei import SpectralDensity
        SpectralDensity(ta, dict(ftype="OverdampedBrownian", reorg=0.01, cortime=50.0, T=300.0)).get_CorrelationFunction()

    ta_s = TimeAxis(0.0, 30, 2.0)

    def fresh(nm=2, modes=False, mult=1):
        mols = []
        for k in range(nm):
            ml = Molecule([0.0, 1.0 + 0.1 * k])
            ml.set_transition_environment((0, 1), cfa)
            ml.set_dipole(0, 1, [1.0, 0.5 * k, 0.0])
            if modes and k == 0:
                md = Mode(frequency=0.05)
                ml.add_Mode(md)
                md.set_nmax(0, 2); md.set_nmax(1, 2); md.set_HR(1, 0.3)
            mols.append(ml)
        a = Aggregate(mols)
        for i in range(nm):
            for j in range(i + 1, nm):
                a.set_resonance_coupling(i, j, 0.01)
        a.build(mult=mult)
        return a

    def lib_diag():
        a = fresh(mult=2); a.diagonalize()

    def lib_vib():
        fresh(modes=True)

    def lib_foerster():
        built.get_RelaxationTensor(ta, relaxation_theory="standard_Foerster")

    def lib_combined():
        built.get_RelaxationTensor(ta, relaxation_theory="combined_RedfieldFoerster", coupling_cutoff=0.005)

    def lib_relax_ops():
        built.get_RelaxationTensor(ta, relaxation_theory="standard_Redfield", as_operators=True)

    def lib_rates():
        from quantarhei.qm import RedfieldRateMatrix, FoersterRateMatrix
        hh = built.get_Hamiltonian(); sb = built.get_SystemBathInteraction()
        RedfieldRateMatrix(hh, sb); FoersterRateMatrix(hh, sb)

    def lib_prop():
        from quantarhei.qm import ReducedDensityMatrixPropagator
        from quantarhei import ReducedDensityMatrix
        RT, hh = built.get_RelaxationTensor(ta, relaxation_theory="standard_Redfield")
        r0 = ReducedDensityMatrix(dim=hh.dim); r0.data[1, 1] = 1.0
        ReducedDensityMatrixPropagator(ta_s, hh, RT).propagate(r0)

    def lib_eso():
        from quantarhei import EvolutionSuperOperator
        RT, hh = built.get_RelaxationTensor(ta, relaxation_theory="standard_Redfield")
        U = EvolutionSuperOperator(TimeAxis(0.0, 3, 10.0), hh, RT); U.set_dense_dt(2); U.calculate(show_progress=False)

    def lib_sv():
        from quantarhei import StateVector
        from quantarhei.qm import StateVectorPropagator
        hh = built.get_Hamiltonian()
        StateVectorPropagator(ta_s, hh).propagate(StateVector(data=numpy.array([0.0, 1.0, 0.0])))

    def lib_ft():
        from quantarhei import DFunction
        F = DFunction(ta_s, numpy.exp(-numpy.array(ta_s.data) / 10.0)).get_Fourier_transform()
        F.get_inverse_Fourier_transform()

    def lib_bathft():
        from quantarhei import SpectralDensity
        sd_ = SpectralDensity(ta, dict(ftype="OverdampedBrownian", reorg=0.01, cortime=50.0, T=300.0))
        sd_.get_FTCorrelationFunction()
        c_ = CorrelationFunction(ta, dict(ftype="OverdampedBrownian", reorg=0.01, cortime=50.0, T=300.0))
        c_.get_SpectralDensity(); c_.get_FTCorrelationFunction()
        c_.measure_reorganization_energy()

    def lib_states():
        built.get_DensityMatrix(condition_type="thermal_excited_state", relaxation_theory_limit="strong_coupling", temperature=100.0)
        built.get_DensityMatrix(condition_type="impulsive_excitation")
        built.get_thermal_ReducedDensityMatrix()
        built.get_excited_density_matrix(condition="delta")

    def lib_save():
        import tempfile, os as _os
        from quantarhei import load_parcel
        d_ = tempfile.mkdtemp()
        try:
            fn_ = _os.path.join(d_, "x.qrp")
            built.get_Hamiltonian().save(fn_); load_parcel(fn_)
            cfa.save(fn_); load_parcel(fn_)
        finally:
            import shutil as _sh
            _sh.rmtree(d_, ignore_errors=True)

    def lib_basis():
        from quantarhei import eigenbasis_of
        hh = built.get_Hamiltonian()
        with eigenbasis_of(hh):
            hh.data
        hh.diagonalize(); hh.undiagonalize() if hasattr(hh, "undiagonalize") else None

    def lib_molham():
        mol_a.get_Hamiltonian(); mol_a.get_energy(1); mol_a.get_TransitionDipoleMoment()

    def lib_dipdip():
        a = Aggregate([Molecule([0.0, 1.0]), Molecule([0.0, 1.2])])
        for k_, ml in enumerate(a.monomers):
            ml.set_dipole(0, 1, [1.0, 0.0, 0.0]); ml.position = numpy.array([10.0 * k_, 0.0, 0.0])
        a.set_coupling_by_dipole_dipole(epsr=2.0); a.build()

    libs = [("Aggregate.diagonalize", lib_diag), ("Aggregate.build(with modes)", lib_vib), ("get_RelaxationTensor(Foerster)", lib_foerster),
            ("get_RelaxationTensor(combined)", lib_combined), ("get_RelaxationTensor(as_operators)", lib_relax_ops),
            ("RedfieldRateMatrix/FoersterRateMatrix", lib_rates), ("ReducedDensityMatrixPropagator.propagate", lib_prop),
            ("EvolutionSuperOperator.calculate", lib_eso), ("StateVectorPropagator.propagate", lib_sv), ("DFunction Fourier transforms", lib_ft),
            ("bath function transforms", lib_bathft), ("initial states", lib_states), ("save/load_parcel", lib_save),
            ("eigenbasis_of/diagonalize", lib_basis), ("Molecule getters", lib_molham), ("set_coupling_by_dipole_dipole", lib_dipdip)]
    def lib_convert_refused():
        from quantarhei.core.units import in_current_units
        for bad_, un_ in ((0, "nm"), ([1.0, 2.0], "1/cm"), (None, "eV"), ((3.0, 4.0), "THz")):
            for f_ in (lambda: qr.convert(bad_, un_), lambda: qr.convert(bad_, un_, to="1/cm"), lambda: in_current_units(bad_, un_)):
                try:
                    f_()
                except Exception:
                    pass

    libs += [("convert / in_current_units (refused argument)", lib_convert_refused)]

    def lib_cf_kinds():
        # copy / sum / in-place sum of bath functions of the other analytic kinds (the left operand decides which constructor runs)
        for prm in (dict(ftype="UnderdampedBrownian", reorg=0.01, freq=0.05, gamma=1.0 / 500.0, T=300.0),
                    dict(ftype="B777", reorg=0.01, T=300.0)):
            c_ = CorrelationFunction(ta, dict(prm))
            c_.copy()
            c_ + CorrelationFunction(ta, dict(ftype="OverdampedBrownian", reorg=0.01, cortime=50.0, T=300.0))
            c_ += c_

    def lib_cutoff():
        from quantarhei import Hamiltonian
        hc = Hamiltonian(data=[[0.0, 0.0, 0.0], [0.0, 1.0, 0.01], [0.0, 0.01, 1.1]])
        hc.remove_cutoff_coupling(0.005)

    libs += [("CorrelationFunction copy/+/+= (underdamped, B777)", lib_cf_kinds), ("Hamiltonian.remove_cutoff_coupling", lib_cutoff)]

    def lib_build_refused():
        # a build that is refused half way (an exciton multiplicity that is not a number); the caller catches the refusal and goes on
        a = Aggregate([Molecule([0.0, 1.0]), Molecule([0.0, 1.1])])
        try:
            a.build(mult="two")
        except Exception:
            pass

    libs += [("Aggregate.build (refused)", lib_build_refused)]
    libs += [("Aggregate.build", lib_build), ("Aggregate.build(mult=2)", lib_build_mult2), ("get_RelaxationTensor", lib_relax),
            ("get_RelaxationTensor(time_dependent)", lib_relax_td), ("get_Hamiltonian.data", lib_ham), ("CorrelationFunction+", lib_cf),
            ("TimeAxis.get_FrequencyAxis", lib_faxis), ("convert", lib_convert), ("AbsSpectrumCalculator.calculate", lib_abs),
            ("get_DensityMatrix", lib_dm), ("SpectralDensity.get_CorrelationFunction", lib_sd)]

    # the random programs draw from the calls that take milliseconds; every call, the slow ones included, is made in the scripted sweep below
    slow = ("ReducedDensityMatrixPropagator.propagate", "EvolutionSuperOperator.calculate", "AbsSpectrumCalculator.calculate", "get_RelaxationTensor(combined)",
            "get_RelaxationTensor(time_dependent)", "get_RelaxationTensor(Foerster)", "RedfieldRateMatrix/FoersterRateMatrix", "bath function transforms",
            "get_RelaxationTensor", "get_RelaxationTensor(as_operators)", "Aggregate.build(with modes)", "initial states", "save/load_parcel")
    cheap_libs = [i for i, (nm_, _) in enumerate(libs) if nm_ not in slow]

    def state():
        return "%s %d %d" % (m.get_current_units("energy"), m._in_eu_count, 1 if m._in_energy_units_context else 0)

    def gen_nodes(depth):
        nodes = []
        for _ in range(rng.randint(1, 3)):
            x = rng.random()
            if x < 0.45 and depth < 4:
                u = rng.choice(eunits) if rng.random() < 0.93 else "furlong"
                # the context object may be created long before it is entered (as ex_006_Absorption_1 does)
                nodes.append(["with", u, gen_nodes(depth + 1), rng.random() < 0.4, rng.random() < 0.35 and u != "furlong", None])
            elif x < 0.6:
                nodes.append(("raise",))
            elif x < 0.85:
                nodes.append(("call", rng.choice(cheap_libs)))
            elif x < 0.93:
                nodes.append(("raw", rng.choice(eunits)) if (depth == 0 or rng.random() < 0.6) else ("rawleft", rng.choice(eunits)))
            else:
                nodes.append(("rawbad",))
        return nodes

    stats = {"maxdepth": 0, "raises": 0, "calls": 0, "precreated": 0}

    def strip(nodes):
        return [[nd[0], nd[1], strip(nd[2]), nd[3], nd[4]] if nd[0] == "with" else list(nd) for nd in nodes]

    def run_nodes(nodes, depth, prog):
        for nd in nodes:
            if nd[0] == "with":
                try:
                    ctx = nd[5] if nd[5] is not None else energy_units(nd[1])
                except Exception:
                    emit("enter %s" % nd[1], "refused " + state())
                    continue
                stats["maxdepth"] = max(stats["maxdepth"], depth + 1)
                outer_units = m.get_current_units("energy")
                try:
                    try:
                        with ctx:
                            emit("enter %s" % nd[1], "ok " + state())
                            run_nodes(nd[2], depth + 1, prog)
                    finally:
                        emit("exit", "ok " + state())
                        if m.get_current_units("energy") != outer_units:
                            ck.fail("contexts:exit", "leaving a units context did not restore the units active when it was entered",
                                    {"program": strip(prog), "entered_with": nd[1], "precreated": bool(nd[4])},
                                    m.get_current_units("energy"), outer_units)
                            m.current_units["energy"] = outer_units
                except Boom:
                    if not nd[3]:
                        raise
            elif nd[0] == "raise":
                stats["raises"] += 1
                raise Boom()
            elif nd[0] == "call":
                name, f = libs[nd[1]]
                stats["calls"] += 1
                before = state()
                try:
                    f()
                except Exception as e:
                    ck.extra.setdefault("library_call_errors", {})[name] = repr(e)[:200]
                after = state()
                if before != after:
                    ck.fail("call:%s" % name, "library call changed the active units of its caller",
                            {"call": name, "program": strip(prog)}, after, before)
                    # put the manager back so that the rest of the program stays comparable
                    m.current_units["energy"] = before.split()[0]
            elif nd[0] == "raw":
                m.set_current_units("energy", nd[1]); emit("rawset %s" % nd[1], "ok " + state())
                m.unset_current_units("energy"); emit("rawunset", "ok " + state())
            elif nd[0] == "rawleft":
                # units switched by hand inside a context and not switched back (what a refused build() leaves behind): the context restores on exit
                m.set_current_units("energy", nd[1]); emit("rawset %s" % nd[1], "ok " + state())
            elif nd[0] == "rawbad":
                try:
                    m.set_current_units("energy", "furlong"); out = "ok "
                except Exception:
                    out = "refused "
                emit("rawset furlong", out + state())

    # a cut-off supplied in the current units acts on the couplings as read in the current units: the same couplings go whatever the context
    try:
        from quantarhei import Hamiltonian
        for un_ in (None, "1/cm", "eV", "THz", "nm" if False else "meV"):
            J1, J2 = 0.004, 0.009                                   # internal units; the cut-off lies between them
            hco = Hamiltonian(data=[[0.0, 0.0, 0.0, 0.0], [0.0, 1.0, J1, J2], [0.0, J1, 1.1, -J2], [0.0, J2, -J2, 1.2]])
            inp_ = {"accessor": "Hamiltonian.remove_cutoff_coupling", "units": un_, "couplings_int": [J1, J2, -J2], "cutoff_int": 0.006}
            m.current_units["energy"] = "1/fs"; m._in_eu_count = 0; m._in_energy_units_context = False
            if un_:
                with energy_units(un_):
                    hco.remove_cutoff_coupling(qr.convert(0.006, "int", to=un_))
            else:
                hco.remove_cutoff_coupling(0.006)
            got_ = [float(hco._data[1, 2]), float(hco._data[1, 3]), float(hco._data[2, 3])]
            ck.case(("cutoff", un_), nontrivial=bool(un_), accessor="remove_cutoff_coupling")
            if got_ != [0.0, J2, -J2]:
                ck.fail("accessor:remove_cutoff_coupling", "couplings removed by a cut-off given in the current units are not those below the cut-off",
                        inp_, got_, [0.0, J2, -J2])
    except Exception as e:
        ck.fail("raises:remove_cutoff_coupling", "remove_cutoff_coupling under a units context raised %r" % (e,), {})
    # a frequency axis copied while a units context is open: the copy is the same axis, read in any units
    try:
        from quantarhei import FrequencyAxis
        for u_make in ("1/cm", "eV", "int"):
            for u_copy in ("1/cm", "THz", "int"):
                m.current_units["energy"] = "1/fs"; m._in_eu_count = 0; m._in_energy_units_context = False
                with energy_units(u_make):
                    fa_ = FrequencyAxis(float(qr.convert(10000.0, "1/cm", to=u_make)), 20, float(qr.convert(10.0, "1/cm", to=u_make)))
                with energy_units(u_copy):
                    fc_ = fa_.copy()
                with energy_units("1/cm"):
                    got_ = [float(fc_.start), float(fc_.step), float(numpy.asarray(fc_.data)[-1])]
                    want_ = [float(fa_.start), float(fa_.step), float(numpy.asarray(fa_.data)[-1])]
                ck.case(("faxis-copy", u_make, u_copy), nontrivial=(u_copy != "int"), accessor="FrequencyAxis.copy")
                if max(abs(a_ - b_) / abs(b_) for a_, b_ in zip(got_, want_)) > 1e-12 or abs(want_[0] - 10000.0) > 1e-6:
                    ck.fail("accessor:FrequencyAxis.copy", "a frequency axis copied inside energy_units(%r) is not the axis it was copied from" % u_copy,
                            {"made_in": u_make, "copied_in": u_copy}, got_, want_)
    except Exception as e:
        ck.fail("raises:FrequencyAxis.copy", "raised %r" % (e,), {})
    # frequency_units (an alias of the energy contexts) nested in energy contexts: every kind of units the manager keeps is as before afterwards
    try:
        from quantarhei import frequency_units
        for outer_ in ("1/cm", "eV", None):
            m.current_units["energy"] = "1/fs"; m._in_eu_count = 0; m._in_energy_units_context = False
            before_ = {k_: m.get_current_units(k_) for k_ in ("energy", "frequency", "length")}
            f0_ = float(m.convert_frequency_2_internal_u(1.0))
            try:
                if outer_:
                    with energy_units(outer_):
                        with frequency_units("THz"):
                            pass
                else:
                    with frequency_units("THz"):
                        pass
            except Exception as e_:
                ck.fail("raises:frequency_units", "frequency_units context raised %r" % (e_,), {"outer": outer_})
            after_ = {k_: m.get_current_units(k_) for k_ in ("energy", "frequency", "length")}
            ck.case(("frequency-units-context", outer_), nontrivial=bool(outer_), accessor="frequency_units")
            try:
                f1_ = float(m.convert_frequency_2_internal_u(1.0))
            except Exception as e_:
                f1_ = repr(e_)
            if after_ != before_ or f1_ != f0_:
                ck.fail("contexts:frequency-units", "after a frequency_units context (inside energy_units(%r)) the units the manager keeps are not what they were" % outer_,
                        {"outer": outer_}, [after_, f1_], [before_, f0_])
                for k_, v_ in before_.items():
                    m.current_units[k_] = v_
    except Exception as e:
        ck.fail("raises:frequency-units-context", "raised %r" % (e,), {})
    # contexts of the other managed units (lengths): nesting, exceptions, an energy context inside a length context
    try:
        from quantarhei import length_units
        lunits = ["A", "nm", "Bohr"]
        for lu1 in lunits:
            for lu2 in lunits:
                for variant in ("nested", "exception", "energy-inside"):
                    m.current_units["energy"] = "1/fs"; m._in_eu_count = 0; m._in_energy_units_context = False
                    l0 = m.get_current_units("length")
                    seen = []
                    try:
                        with length_units(lu1):
                            seen.append(m.get_current_units("length"))
                            if variant == "energy-inside":
                                with energy_units("1/cm"):
                                    seen.append((m.get_current_units("length"), m.get_current_units("energy")))
                                seen.append((m.get_current_units("length"), m.get_current_units("energy")))
                            else:
                                with length_units(lu2):
                                    seen.append(m.get_current_units("length"))
                                    if variant == "exception":
                                        raise Boom()
                                seen.append(m.get_current_units("length"))
                    except Boom:
                        pass
                    except Exception as e:
                        seen.append("raised %r" % (e,))
                    after = (m.get_current_units("length"), m.get_current_units("energy"))
                    want = [lu1, (lu1, "1/cm"), (lu1, "1/fs")] if variant == "energy-inside" else ([lu1, lu2, lu1] if variant == "nested" else [lu1, lu2])
                    ck.case(("length-contexts", lu1, lu2, variant), nontrivial=(lu1 != lu2), accessor="length_units")
                    if seen != want or after != (l0, "1/fs"):
                        ck.fail("contexts:length-units", "length-units contexts (%s) do not present / restore the units as nested contexts must" % variant,
                                {"outer": lu1, "inner": lu2 if variant != "energy-inside" else "energy_units('1/cm')", "variant": variant}, [seen, after], [want, (l0, "1/fs")])
                        m.current_units["length"] = l0; m.current_units["energy"] = "1/fs"
    except Exception as e:
        ck.fail("raises:length-contexts", "length-units contexts raised %r" % (e,), {})
    # bath functions of the kinds that carry further energy parameters (frequency, damping): the function does not depend on the units in
    # which the parameters were given
    try:
        for prm in (dict(ftype="UnderdampedBrownian", reorg=20.0, freq=300.0, gamma=30.0, T=300.0), dict(ftype="B777", reorg=20.0, gamma=25.0, T=300.0, alternative_form=False),
                    dict(ftype="Underdamped", reorg=20.0, freq=250.0, gamma=40.0, T=300.0)):
            m.current_units["energy"] = "1/fs"; m._in_eu_count = 0; m._in_energy_units_context = False
            with energy_units("1/cm"):
                ref_ = CorrelationFunction(ta, dict(prm))
            dref = numpy.array(ref_.data).copy()
            for un_ in ("int", "eV", "THz", "meV"):
                p2 = dict(prm)
                for k_ in ("reorg", "freq", "gamma"):
                    if k_ in p2:
                        p2[k_] = float(qr.convert(prm[k_], "1/cm", to=un_))
                with energy_units(un_):
                    f2 = CorrelationFunction(ta, p2)
                dv_ = float(numpy.abs(numpy.array(f2.data) - dref).max() / numpy.abs(dref).max())
                ck.case(("bath-function-params", prm["ftype"], un_), nontrivial=True, accessor="CorrelationFunction(params)")
                if dv_ > 1e-9 or abs(float(f2.lamb) - float(ref_.lamb)) > 1e-12 * abs(float(ref_.lamb)):
                    ck.fail("accessor:bath-function-params:%s" % prm["ftype"], "a bath correlation function whose parameters are given in %s differs from the one whose "
                            "parameters are given in 1/cm (same values)" % un_, {"params_cm": prm, "units": un_}, dv_)
    except Exception as e:
        ck.fail("raises:bath-function-params", "raised %r" % (e,), {})
    # setter/getter pairs of the Molecule for quantities that are energies: what is supplied under a units context reads back under it
    try:
        for un_ in ("1/cm", "eV", "THz"):
            m.current_units["energy"] = "1/fs"; m._in_eu_count = 0; m._in_energy_units_context = False
            val_ = float(qr.convert(100.0, "1/cm", to=un_))
            with energy_units(un_):
                mw_ = Molecule([0.0, float(qr.convert(12000.0, "1/cm", to=un_))])
                mw_.set_transition_width((0, 1), val_)
                back_ = float(mw_.get_transition_width((0, 1)))
            stored_ = float(mw_.get_transition_width((0, 1)))
            ck.case(("molecule-width-accessor", un_), nontrivial=True, accessor="Molecule.set/get_transition_width")
            if abs(stored_ - float(qr.convert(100.0, "1/cm", "int"))) > 1e-12 * stored_:
                ck.fail("accessor:transition_width:stored", "a transition width supplied under energy_units(%r) is not stored as its conversion" % un_, {"units": un_, "value": val_}, stored_)
            if abs(back_ - val_) > 1e-9 * abs(val_):
                ck.fail("accessor:get_transition_width", "Molecule.get_transition_width() read under energy_units(%r) does not return the width in these units "
                        "(the setter converts, the getter hands out the stored internal value)" % un_, {"units": un_, "supplied": val_}, back_, val_)
    except Exception as e:
        ck.fail("raises:molecule-width-accessor", "raised %r" % (e,), {})
    # whole-number values handed over as an integer array (800 nm, 12000 1/cm, 2 eV): stored as the exact conversion of the numbers
    try:
        from quantarhei import Hamiltonian
        for un_, val_ in (("nm", 800), ("1/cm", 12000), ("eV", 2), ("THz", 375), ("meV", 1500), ("nm", 650)):
            m.current_units["energy"] = "1/fs"; m._in_eu_count = 0; m._in_energy_units_context = False
            with energy_units(un_):
                hi_ = Hamiltonian(data=numpy.array([[0, 0], [0, val_]], dtype=int))
                back_ = float(numpy.real(numpy.array(hi_.data)[1, 1]))
            want_ = float(qr.convert(float(val_), un_, "int"))
            ck.case(("integer-array", un_, val_), nontrivial=True, accessor="Hamiltonian(data=integer array)")
            if abs(float(numpy.real(numpy.asarray(hi_._data)[1, 1])) - want_) > 1e-12 * abs(want_) or abs(back_ - val_) > 1e-9 * val_:
                ck.fail("accessor:integer-array", "an energy given as a whole number in an integer array under energy_units(%r) is not stored as its conversion "
                        "(or not read back as given)" % un_, {"units": un_, "value": val_}, [float(numpy.real(numpy.asarray(hi_._data)[1, 1])), back_], [want_, val_])
    except Exception as e:
        ck.fail("raises:integer-array", "Hamiltonian from an integer array under a units context raised %r" % (e,), {})
    # diagonalize() / undiagonalize() of a Hamiltonian called inside a units context: the stored energies afterwards are the eigenvalues in
    # internal units (the stored value does not depend on the context in which a method was called)
    try:
        from quantarhei import Hamiltonian
        hd_ = numpy.array([[0.0, 0.0, 0.0], [0.0, 1.0, 0.1], [0.0, 0.1, 1.2]])
        for un_ in (None, "1/cm", "eV", "THz"):
            for cut_ in (None, 0.05):
                m.current_units["energy"] = "1/fs"; m._in_eu_count = 0; m._in_energy_units_context = False
                hq_ = Hamiltonian(data=hd_.copy())
                inp_ = {"accessor": "Hamiltonian.diagonalize(%s)" % ("" if cut_ is None else "coupling_cutoff"), "units": un_, "H_int": hd_.tolist()}
                if un_:
                    with energy_units(un_):
                        hq_.diagonalize() if cut_ is None else hq_.diagonalize(coupling_cutoff=qr.convert(cut_, "int", to=un_))
                        ein_ = numpy.diag(numpy.array(hq_.data)).copy()
                else:
                    hq_.diagonalize() if cut_ is None else hq_.diagonalize(coupling_cutoff=cut_)
                    ein_ = numpy.diag(numpy.array(hq_.data)).copy()
                ev_ = numpy.linalg.eigvalsh(hd_)
                ck.case(("diagonalize-in-units", un_, cut_), nontrivial=bool(un_), accessor="Hamiltonian.diagonalize")
                want_in = ev_ if not un_ else numpy.array([float(qr.convert(x_, "int", to=un_)) for x_ in ev_])
                if numpy.abs(numpy.diag(numpy.asarray(hq_._data)) - ev_).max() > 1e-12 or numpy.abs(ein_ - want_in).max() > 1e-9 * numpy.abs(want_in).max():
                    ck.fail("accessor:diagonalize", "after diagonalize() called inside a units context the stored energies are not the eigenvalues in internal units "
                            "(or the values read in the context are not their conversion)", inp_, [numpy.diag(numpy.asarray(hq_._data)).tolist(), ein_.tolist()],
                            [ev_.tolist(), want_in.tolist()])
                hq_.undiagonalize()
                if numpy.abs(numpy.asarray(hq_._data) - hd_).max() > 1e-12:
                    ck.fail("accessor:undiagonalize", "undiagonalize() after a diagonalize() inside a units context does not give the Hamiltonian back", inp_,
                            float(numpy.abs(numpy.asarray(hq_._data) - hd_).max()))
    except Exception as e:
        ck.fail("raises:diagonalize-in-units", "diagonalize under a units context raised %r" % (e,), {})
    # every library call once per run whatever the seed: inside a context of another unit and outside any context
    for li, (name, f) in enumerate(libs):
        for ctxu in ("1/cm", None, "eV"):
            m.current_units["energy"] = "1/fs"; m._in_eu_count = 0; m._in_energy_units_context = False
            try:
                if ctxu:
                    with energy_units(ctxu):
                        before = state()
                        try:
                            f()
                        except Exception as e:
                            ck.extra.setdefault("library_call_errors", {})[name] = repr(e)[:200]
                        after = state()
                else:
                    before = state()
                    try:
                        f()
                    except Exception as e:
                        ck.extra.setdefault("library_call_errors", {})[name] = repr(e)[:200]
                    after = state()
            except Exception as e:
                ck.extra.setdefault("library_call_errors", {})[name] = repr(e)[:200]
                continue
            ck.case(("libcall", name, ctxu), nontrivial=bool(ctxu), accessor="library-call")
            if before != after:
                ck.fail("call:%s" % name, "library call changed the active units of its caller", {"call": name, "inside_energy_units": ctxu}, after, before)
    m.current_units["energy"] = "1/fs"; m._in_eu_count = 0; m._in_energy_units_context = False
    for h in range(ck.n(40, 600)):
        start = rng.choice(["1/fs", "1/cm", "int", "eV"])
        m.current_units["energy"] = start
        m._in_eu_count = 0
        m._in_energy_units_context = False
        emit("reset %s" % start, state())
        prog = gen_nodes(0)
        if h < 3:
            # fixed programs: a context asking for the units that are active already, units switched by hand inside it
            u_, v_ = (("1/cm", "eV"), ("eV", "THz"), ("1/fs", "1/cm"))[h]
            inner = ["with", u_, [("rawleft", v_)], False, False, None]
            prog = [["with", u_, [inner if h != 1 else ["with", u_, [inner], False, True, None], ("call", cheap_libs[0])], False, False, None]]
            start = ("1/fs", "1/cm", "1/fs")[h]
            m.current_units["energy"] = start
            lines.pop(); impl.pop(); tol.pop()
            emit("reset %s" % start, state())
        stats.update(maxdepth=0, raises=0, calls=0, precreated=0)

        def precreate(nodes):
            for nd in nodes:
                if nd[0] == "with":
                    if nd[4]:
                        nd[5] = energy_units(nd[1])
                        stats["precreated"] += 1
                    precreate(nd[2])
        precreate(prog)
        try:
            run_nodes(prog, 0, prog)
        except Boom:
            pass
        end = state()
        if end != "%s 0 0" % start:
            ck.fail("contexts:restore", "units / nesting bookkeeping not restored after a nested program of contexts",
                    {"program": strip(prog), "start": start}, end, "%s 0 0" % start)
        ck.case(repr(strip(prog)), nontrivial=(stats["maxdepth"] >= 2 and (stats["raises"] or stats["calls"])),
                nesting=stats["maxdepth"], raises=min(stats["raises"], 2), calls=min(stats["calls"], 3),
                precreated=min(stats["precreated"], 2), sample={"program": strip(prog)} if h < 2 else None)
    m.current_units["energy"] = "1/fs"
    model = ck.drive(DRIVER, lines)
    if model is not None:
        for l, a, b, t in zip(lines, impl, model, tol):
            ck.traces += 1
            if t is None:
                if a != b:
                    ck.disagree("state differs", l, a, b)
            else:
                fa, fb = float(Fraction(a)), float(Fraction(b))
                if abs(fa - fb) > t * abs(fb):
                    ck.disagree("conversion differs", l, fa, fb)
    return ck.finish()
