import QV.Model.Prop
import QV.Lemmas.Bridge
import QV.Lemmas.Taylor
import QV.Props.C01
import Mathlib.Tactic.Ring
import Mathlib.Algebra.BigOperators.Ring.Finset
import Mathlib.Algebra.Field.Basic

/-!
# C07 — operator form, tensor form and exact limits of a tensor agree
-/
namespace QV.Prop
open QV QV.C01 Finset

variable {n : Nat}

section ring
variable {α : Type} [CommRing α]

/-- **operator form ≡ tensor form on every operator** (one component, any `K, Kd, L, Ld`):
`K ρ Ld + L ρ Kd − Kd L ρ − ρ Ld K = Σ_cd R_abcd ρ_cd` with `R` the `_loopit` element formula -/
theorem applyOps_eq_apply (K Kd L Ld ρ : Mat α n) :
    applyOps K Kd L Ld ρ = apply (loopTerm K Kd L Ld) ρ := by
  funext a b
  simp only [applyOps, apply, tensApply, loopTerm, matMul, sumFin_eq_sum]
  have e1 : ∑ c, ∑ d, (K a c * Ld d b + L a c * Kd d b - (if b = d then ∑ x, Kd a x * L x c else 0)
        - (if a = c then ∑ x, Ld d x * K x b else 0)) * ρ c d
      = (∑ c, ∑ d, K a c * Ld d b * ρ c d) + (∑ c, ∑ d, L a c * Kd d b * ρ c d)
        - (∑ c, (∑ x, Kd a x * L x c) * ρ c b) - (∑ d, (∑ x, Ld d x * K x b) * ρ a d) := by
    simp only [sub_mul, add_mul, Finset.sum_sub_distrib, Finset.sum_add_distrib, ite_mul, zero_mul,
      Finset.sum_ite_eq, Finset.mem_univ, if_true]
    congr 1
    rw [Finset.sum_comm]
    simp [Finset.sum_ite_eq']
  rw [e1]
  have t1 : ∑ x, K a x * ∑ y, ρ x y * Ld y b = ∑ c, ∑ d, K a c * Ld d b * ρ c d := by
    apply Finset.sum_congr rfl; intro c _
    rw [Finset.mul_sum]; apply Finset.sum_congr rfl; intro d _; ring
  have t2 : ∑ x, L a x * ∑ y, ρ x y * Kd y b = ∑ c, ∑ d, L a c * Kd d b * ρ c d := by
    apply Finset.sum_congr rfl; intro c _
    rw [Finset.mul_sum]; apply Finset.sum_congr rfl; intro d _; ring
  have t4 : ∑ x, ρ a x * ∑ y, Ld x y * K y b = ∑ d, (∑ x, Ld d x * K x b) * ρ a d := by
    apply Finset.sum_congr rfl; intro d _; ring
  rw [t1, t2, t4]

/-- the generators used by the two propagation loops coincide for the assembled tensor -/
theorem genOps_eq_genTensor (ii : α) (H : Mat α n) (comps : List (Mat α n × Mat α n × Mat α n)) (c : α)
    (ρ : MatD α n n) : genOps ii H comps c ρ = genTensor ii H (redfieldTensor comps) c ρ := by
  unfold genOps genTensor
  congr 1
  funext a b
  have key : ∀ (cs : List (Mat α n × Mat α n × Mat α n)) (acc : α) (R0 : Tens α n),
      cs.foldl (fun acc (k : Mat α n × Mat α n × Mat α n) =>
        acc + c * applyOps k.1 (fun i j => k.1 j i) k.2.1 k.2.2 ρ.fn a b) acc
      = acc - c * tensApply R0 ρ.fn a b + c * tensApply (cs.foldl (fun R (k : Mat α n × Mat α n × Mat α n) =>
          fun a b cc d => R a b cc d + loopTerm k.1 (fun i j => k.1 j i) k.2.1 k.2.2 a b cc d) R0) ρ.fn a b := by
    intro cs
    induction cs with
    | nil => intro acc R0; simp
    | cons k ks ih =>
      intro acc R0
      simp only [List.foldl_cons]
      rw [ih]
      have : tensApply (fun a b cc d => R0 a b cc d + loopTerm k.1 (fun i j => k.1 j i) k.2.1 k.2.2 a b cc d) ρ.fn a b
          = tensApply R0 ρ.fn a b + applyOps k.1 (fun i j => k.1 j i) k.2.1 k.2.2 ρ.fn a b := by
        rw [applyOps_eq_apply]
        simp only [apply, tensApply, sumFin_eq_sum, add_mul, Finset.sum_add_distrib]
      rw [this]; ring
  rw [key comps _ (fun _ _ _ _ => 0)]
  simp only [redfieldTensor, tensApply, sumFin_eq_sum, zero_mul, Finset.sum_const_zero, mul_zero, sub_zero]

end ring

/-- **hence operator-form and tensor-form propagation store identical states**, for every order,
refinement, step and number of stored times -/
theorem propagate_ops_eq_tensor {α : Type} [Field α] (ii : α) (H : Mat α n)
    (comps : List (Mat α n × Mat α n × Mat α n)) (dt : α) (L Nref nt : Nat) (ρ0 : MatD α n n) :
    rdmPropagate (genOps ii H comps) dt L Nref nt ρ0
      = rdmPropagate (genTensor ii H (redfieldTensor comps)) dt L Nref nt ρ0 := by
  have : genOps ii H comps = genTensor ii H (redfieldTensor comps) := by
    funext c ρ; exact genOps_eq_genTensor ii H comps c ρ
  rw [this]

end QV.Prop
