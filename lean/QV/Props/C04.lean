import QV.Model.C04
import Mathlib.Algebra.Group.Basic
import Mathlib.Algebra.BigOperators.Group.List.Basic
import Mathlib.LinearAlgebra.Matrix.Trace

/-!
# C04 — basis-change contexts are transparent and self-restoring
The model of `QV.Model.C04` is instantiated at an arbitrary group `G` of basis
transformations acting on representations `R` (`act (g*h) r = act h (act g r)`,
i.e. `r ↦ g⁻¹ r g`), which covers operators, density matrices and — with the
induced action — tensors and superoperators for exactly invertible transformations.
-/
namespace QV.C04

variable {G R : Type} [Group G] (act : G → R → R)

/-- the algebra the theorems are about -/
def grpAlg : Alg G R := { mul := (· * ·), inv := (·⁻¹), one := 1, act := act }

/-- a (right) action: changing basis by `g` then by `h` is changing basis by `g*h` -/
structure IsAction : Prop where
  one : ∀ r, act 1 r = r
  mul : ∀ g h r, act (g * h) r = act h (act g r)

/-- total transformation from the basis outside all contexts to the innermost one -/
def Gfull (levels : List G) : G := levels.reverse.prod
/-- … to the basis with id `b` (0 = outside) -/
def Gto (levels : List G) (b : Nat) : G := Gfull (levels.drop (levels.length - b))

theorem Gfull_cons (S : G) (levels : List G) : Gfull (S :: levels) = Gfull levels * S := by
  simp [Gfull, List.prod_append]

theorem Gto_full (levels : List G) : Gto levels levels.length = Gfull levels := by simp [Gto]
theorem Gto_zero (levels : List G) : Gto levels 0 = 1 := by simp [Gto, Gfull]

theorem Gto_cons (S : G) (levels : List G) (b : Nat) (hb : b ≤ levels.length) :
    Gto (S :: levels) b = Gto levels b := by
  unfold Gto
  have : (S :: levels).length - b = (levels.length - b) + 1 := by simp; omega
  rw [this, List.drop_succ_cons]

/-- the scroll-back product of `transform_to_current_basis` is the missing factor -/
theorem scrollBack_spec (levels : List G) (k : Nat) (hk : k ≤ levels.length) :
    Gfull (levels.drop k) * scrollBack (grpAlg act) k levels = Gfull levels := by
  induction levels generalizing k with
  | nil => simp [scrollBack, grpAlg, Gfull] ; cases k <;> simp [scrollBack]
  | cons z zs ih =>
    cases k with
    | zero => simp [scrollBack, grpAlg]
    | succ k =>
      simp only [List.drop_succ_cons, scrollBack, grpAlg]
      have := ih k (by simpa using hk)
      simp only [grpAlg] at this
      rw [← mul_assoc, this, Gfull_cons]

/-- per-object invariant relative to its representation `orig` in the outermost basis -/
structure ObjInv (levels : List G) (o : Obj R) (orig : R) : Prop where
  unprot : o.prot = false
  le : o.basis ≤ levels.length
  rep : o.rep = act (Gto levels o.basis) orig
  reg : o.basis ≠ 0 → o.basis ∈ o.regs
  regs : ∀ l ∈ o.regs, 1 ≤ l ∧ l ≤ o.basis

variable {act}

/-- **reading presents the object in the current basis** and keeps the invariant -/
theorem toCurrent_inv (ha : IsAction act) (s : BState G R) (o : Obj R) (orig : R)
    (h : ObjInv act s.levels o orig) :
    ObjInv act s.levels (toCurrent (grpAlg act) s o) orig ∧
    (toCurrent (grpAlg act) s o).basis = s.levels.length ∧
    (toCurrent (grpAlg act) s o).rep = act (Gfull s.levels) orig := by
  have hp : o.prot = false := h.unprot
  unfold toCurrent depth
  rw [if_neg (by simp [hp])]
  by_cases hb : o.basis = s.levels.length
  · rw [if_pos hb]
    exact ⟨h, hb, by rw [h.rep, hb, Gto_full]⟩
  · rw [if_neg hb]
    have hlt : o.basis < s.levels.length := Nat.lt_of_le_of_ne h.le hb
    have hrep : act (scrollBack (grpAlg act) (s.levels.length - o.basis) s.levels) o.rep
        = act (Gfull s.levels) orig := by
      rw [h.rep, ← ha.mul]
      congr 1
      exact scrollBack_spec act s.levels _ (by omega)
    refine ⟨⟨hp, Nat.le_refl _, ?_, ?_, ?_⟩, rfl, hrep⟩
    · show act _ o.rep = _
      rw [hrep, Gto_full]
    · intro _
      show s.levels.length ∈ (if s.levels.length ∈ o.regs then o.regs else s.levels.length :: o.regs)
      split_ifs with hm
      · exact hm
      · simp
    · intro l hl
      have hl' : l ∈ (if s.levels.length ∈ o.regs then o.regs else s.levels.length :: o.regs) := hl
      split_ifs at hl' with hm
      · have := h.regs l hl'; exact ⟨this.1, by show l ≤ s.levels.length; omega⟩
      · rcases List.mem_cons.mp hl' with e | e
        · subst e; exact ⟨by omega, Nat.le_refl _⟩
        · have := h.regs l e; exact ⟨this.1, by show l ≤ s.levels.length; omega⟩

/-- **leaving a context brings every object registered with it back by exactly one level** -/
theorem exitObj_inv (ha : IsAction act) (S : G) (rest : List G) (o : Obj R) (orig : R)
    (h : ObjInv act (S :: rest) o orig) :
    ObjInv act rest (exitObj (grpAlg act) S (rest.length + 1) o) orig := by
  unfold exitObj grpAlg
  have hlen : (S :: rest).length = rest.length + 1 := rfl
  by_cases hm : (rest.length + 1) ∈ o.regs
  · rw [if_pos hm]
    have hb : o.basis = rest.length + 1 := by
      have := (h.regs _ hm).2; have := h.le; rw [hlen] at this; omega
    have hsub : rest.length + 1 - 1 = rest.length := by omega
    refine ⟨h.unprot, Nat.le_of_eq hsub, ?_, ?_, ?_⟩
    · show (if o.prot = true then o.rep else act S⁻¹ o.rep) = act (Gto rest (rest.length + 1 - 1)) orig
      rw [h.unprot, if_neg (by simp), hsub, h.rep, hb, ← hlen, Gto_full, Gto_full, ← ha.mul, Gfull_cons,
        mul_inv_cancel_right]
    all_goals simp only [hsub]
    · intro hne
      have hne : rest.length ≠ 0 := hne
      show rest.length ∈ (if rest.length = 0 ∨ rest.length ∈ o.regs.filter (· != rest.length + 1)
        then o.regs.filter (· != rest.length + 1) else rest.length :: o.regs.filter (· != rest.length + 1))
      split_ifs with hc
      · rcases hc with hc | hc
        · exact absurd hc hne
        · exact hc
      · simp
    · intro l hl
      have hl' : l ∈ (if rest.length = 0 ∨ rest.length ∈ o.regs.filter (· != rest.length + 1)
        then o.regs.filter (· != rest.length + 1) else rest.length :: o.regs.filter (· != rest.length + 1)) := hl
      have hfil : ∀ x ∈ o.regs.filter (· != rest.length + 1), 1 ≤ x ∧ x ≤ rest.length := by
        intro x hx
        simp only [List.mem_filter, bne_iff_ne, ne_eq] at hx
        have := h.regs x hx.1
        exact ⟨this.1, by omega⟩
      split_ifs at hl' with hc
      · exact hfil l hl'
      · rcases List.mem_cons.mp hl' with e | e
        · subst e; exact ⟨by omega, Nat.le_refl _⟩
        · exact hfil l e
  · simp only [hm, if_false]
    have hb : o.basis ≠ rest.length + 1 := fun e => hm (e ▸ h.reg (by omega))
    have hle : o.basis ≤ rest.length := by have := h.le; rw [hlen] at this; omega
    exact ⟨h.unprot, hle, by rw [h.rep, Gto_cons S rest _ hle], h.reg, h.regs⟩

/-- entering a further context does not disturb any object -/
theorem push_inv (S : G) (levels : List G) (o : Obj R) (orig : R) (h : ObjInv act levels o orig) :
    ObjInv act (S :: levels) o orig :=
  ⟨h.unprot, by show o.basis ≤ levels.length + 1; exact Nat.le_succ_of_le h.le, by rw [h.rep, Gto_cons S levels _ h.le], h.reg, h.regs⟩

/-- a new (or overwritten) value given in the current basis: its representation outside all contexts -/
def origOf (levels : List G) (r : R) : R := act (Gfull levels)⁻¹ r

theorem fresh_inv (ha : IsAction act) (levels : List G) (r : R) :
    ObjInv act levels { rep := r, basis := levels.length, prot := false,
                        regs := if levels.length = 0 then [] else [levels.length] }
      (origOf (act := act) levels r) := by
  refine ⟨rfl, Nat.le_refl _, ?_, ?_, ?_⟩
  · show r = _
    rw [Gto_full, origOf, ← ha.mul, inv_mul_cancel, ha.one]
  · intro hne; simp [hne]
  · intro l hl
    by_cases h0 : levels.length = 0
    · simp [h0] at hl
    · simp only [h0, if_false, List.mem_singleton] at hl
      subst hl; exact ⟨by omega, Nat.le_refl _⟩

/-- **when all contexts have been left an object is in its original representation, labelled
with the outermost basis and registered nowhere** -/
theorem restored_at_depth_zero (ha : IsAction act) (o : Obj R) (orig : R) (h : ObjInv act ([] : List G) o orig) :
    o.rep = orig ∧ o.basis = 0 ∧ o.regs = [] := by
  have hb : o.basis = 0 := by simpa using h.le
  refine ⟨by rw [h.rep, hb, Gto_zero, ha.one], hb, ?_⟩
  apply List.eq_nil_iff_forall_not_mem.mpr
  intro l hl
  have := h.regs l hl
  omega

/-! ## whole programs -/

/-- the invariant for every managed object, with the ghost map `orig` -/
def StateInv (s : BState G R) (orig : Nat → R) : Prop :=
  ∀ id o, getObj s id = some o → ObjInv act s.levels o (orig id)

theorem lookup_filter_ne {β : Type} (l : List (Nat × β)) (id id' : Nat) (h : id' ≠ id) :
    (l.filter (fun p => p.1 != id)).lookup id' = l.lookup id' := by
  induction l with
  | nil => rfl
  | cons p ps ih =>
    obtain ⟨k, v⟩ := p
    by_cases hk : k = id
    · subst hk
      have : (id' == k) = false := by simp [h]
      simp [List.filter, List.lookup, this, ih]
    · have hk' : (k != id) = true := by simp [hk]
      simp only [List.filter, hk', List.lookup]
      split <;> simp_all

theorem getObj_setObj (s : BState G R) (id id' : Nat) (o : Obj R) :
    getObj (setObj s id o) id' = if id' = id then some o else getObj s id' := by
  unfold getObj setObj
  by_cases h : id' = id
  · subst h; simp [List.lookup]
  · have : (id' == id) = false := by simp [h]
    simp [List.lookup, this, h, lookup_filter_ne _ _ _ h]

theorem lookup_map_snd {β : Type} (l : List (Nat × β)) (f : β → β) (id : Nat) :
    (l.map (fun p => (p.1, f p.2))).lookup id = (l.lookup id).map f := by
  induction l with
  | nil => rfl
  | cons p ps ih =>
    obtain ⟨k, v⟩ := p
    simp only [List.map, List.lookup]
    split <;> simp_all

theorem read_inv (ha : IsAction act) (s : BState G R) (orig : Nat → R) (h : StateInv (act := act) s orig) (id : Nat) :
    StateInv (act := act) (read (grpAlg act) s id).1 orig ∧ (read (grpAlg act) s id).1.levels = s.levels ∧
    (∀ o, getObj s id = some o → (read (grpAlg act) s id).2 = some (act (Gfull s.levels) (orig id))) := by
  unfold read
  cases ho : getObj s id with
  | none => exact ⟨h, rfl, by intro o h'; simp at h'⟩
  | some o =>
    obtain ⟨i1, _, i3⟩ := toCurrent_inv ha s o (orig id) (h id o ho)
    refine ⟨?_, rfl, by intro _ _; simp [i3]⟩
    intro id' o' hg
    rw [getObj_setObj] at hg
    split_ifs at hg with e
    · subst e; injection hg with hg; subst hg; exact i1
    · exact h id' o' hg

theorem step_inv (ha : IsAction act) (s : BState G R) (orig : Nat → R) (h : StateInv (act := act) s orig)
    (op : Op G R) : ∃ orig', StateInv (act := act) (step (grpAlg act) s op) orig' ∧
      (∀ j, (∀ r, op ≠ .create j r) → (∀ r, op ≠ .write j r) → orig' j = orig j) := by
  cases op with
  | read i => exact ⟨orig, (read_inv ha s orig h i).1, fun _ _ _ => rfl⟩
  | enter i S =>
    refine ⟨orig, ?_, fun _ _ _ => rfl⟩
    obtain ⟨r1, r2, _⟩ := read_inv ha s orig h i
    intro id o hg
    have hg' : getObj (read (grpAlg act) s i).1 id = some o := hg
    have := r1 id o hg'
    rw [r2] at this
    show ObjInv act (S :: (read (grpAlg act) s i).1.levels) o (orig id)
    rw [r2]
    exact push_inv S s.levels o (orig id) this
  | exit =>
    refine ⟨orig, ?_, fun _ _ _ => rfl⟩
    unfold step exit
    cases hl : s.levels with
    | nil => simpa [hl] using h
    | cons S rest =>
      intro id o hg
      have hg' : (s.objs.map (fun p => (p.1, exitObj (grpAlg act) S (rest.length + 1) p.2))).lookup id = some o := by
        simpa [getObj, hl] using hg
      rw [lookup_map_snd] at hg'
      cases ho : s.objs.lookup id with
      | none => simp [ho] at hg'
      | some o0 =>
        simp only [ho, Option.map_some, Option.some.injEq] at hg'
        have h0 := h id o0 ho
        rw [hl] at h0
        have := exitObj_inv ha S rest o0 (orig id) h0
        subst hg'
        simpa [hl] using this
  | create i r =>
    refine ⟨fun j => if j = i then origOf (act := act) s.levels r else orig j, ?_, ?_⟩
    · intro id o hg
      have hg' : getObj (create s i r) id = some o := hg
      unfold create at hg'
      rw [getObj_setObj] at hg'
      show ObjInv act s.levels o (if id = i then origOf (act := act) s.levels r else orig id)
      by_cases e : id = i
      · rw [if_pos e] at hg'
        rw [if_pos e]
        injection hg' with hg'; subst hg'
        exact fresh_inv ha s.levels r
      · rw [if_neg e] at hg'
        rw [if_neg e]; exact h id o hg'
    · intro j hc _
      have : j ≠ i := fun e => hc r (e ▸ rfl)
      simp [this]
  | write i r =>
    cases ho : getObj s i with
    | none => exact ⟨orig, by simpa [step, write, ho] using h, fun _ _ _ => rfl⟩
    | some o =>
      have hstep : step (grpAlg act) s (.write i r) = setObj s i { toCurrent (grpAlg act) s o with rep := r } := by
        simp [step, write, ho]
      refine ⟨fun j => if j = i then origOf (act := act) s.levels r else orig j, ?_, ?_⟩
      · obtain ⟨i1, i2, _⟩ := toCurrent_inv ha s o (orig i) (h i o ho)
        rw [hstep]
        intro id o' hg'
        rw [getObj_setObj] at hg'
        show ObjInv act s.levels o' (if id = i then origOf (act := act) s.levels r else orig id)
        by_cases e : id = i
        · rw [if_pos e] at hg'
          rw [if_pos e]
          injection hg' with hg'; subst hg'
          refine ⟨i1.unprot, i1.le, ?_, i1.reg, i1.regs⟩
          show r = act (Gto s.levels (toCurrent (grpAlg act) s o).basis) (origOf (act := act) s.levels r)
          rw [i2, Gto_full, origOf, ← ha.mul, inv_mul_cancel, ha.one]
        · rw [if_neg e] at hg'
          rw [if_neg e]; exact h id o' hg'
      · intro j _ hw
        have : j ≠ i := fun e => hw r (e ▸ rfl)
        simp [this]

/-- **C04 main theorem.** After *any* program of entering and leaving (nested) contexts, creating,
reading and writing managed objects — leaving through an exception is the same `exit` — the
invariant holds; in particular whenever all contexts have been left again every object is in its
original representation, carries the outermost basis label and is registered nowhere, and an object
that was not written keeps the same original throughout. -/
theorem restore (ha : IsAction act) (ops : List (Op G R)) (s : BState G R) (orig : Nat → R)
    (h : StateInv (act := act) s orig) :
    ∃ orig', StateInv (act := act) (run (grpAlg act) s ops) orig' ∧
      (∀ j, (∀ r, Op.create j r ∉ ops) → (∀ r, Op.write j r ∉ ops) → orig' j = orig j) := by
  induction ops generalizing s orig with
  | nil => exact ⟨orig, h, fun _ _ _ => rfl⟩
  | cons op rest ih =>
    obtain ⟨o1, h1, k1⟩ := step_inv ha s orig h op
    obtain ⟨o2, h2, k2⟩ := ih (step (grpAlg act) s op) o1 h1
    refine ⟨o2, by simpa [run] using h2, ?_⟩
    intro j hc hw
    rw [k2 j (fun r hr => hc r (by simp [hr])) (fun r hr => hw r (by simp [hr])),
      k1 j (fun r e => hc r (by simp [e])) (fun r e => hw r (by simp [e]))]

theorem restore_from_empty [Inhabited R] (ha : IsAction act) (ops : List (Op G R))
    (hd : (run (grpAlg act) (empty : BState G R) ops).levels = []) :
    ∃ orig' : Nat → R, ∀ id o, getObj (run (grpAlg act) (empty : BState G R) ops) id = some o →
      o.rep = orig' id ∧ o.basis = 0 ∧ o.regs = [] := by
  obtain ⟨o', h', _⟩ := restore ha ops (empty : BState G R) (fun _ => default)
    (by intro id o hg; simp [getObj, empty] at hg)
  refine ⟨o', fun id o hg => ?_⟩
  have := h' id o hg
  rw [hd] at this
  exact restored_at_depth_zero ha o (o' id) this


/-! ## the concrete action on operators, and basis-independent results -/
section
variable {n : Type} [Fintype n] [DecidableEq n] {K : Type} [CommRing K]

/-- `Operator.transform`: `S⁻¹ · data · S` for an invertible transformation matrix -/
def conjAct (S : (Matrix n n K)ˣ) (r : Matrix n n K) : Matrix n n K :=
  ((S⁻¹ : (Matrix n n K)ˣ) : Matrix n n K) * r * (S : Matrix n n K)

/-- non-vacuity of the main theorem: conjugation is an action in the required sense -/
theorem conjAct_isAction : IsAction (conjAct (n := n) (K := K)) where
  one := by intro r; simp [conjAct]
  mul := by
    intro g h r
    simp only [conjAct, mul_inv_rev, Units.val_mul]
    simp only [mul_assoc]

/-- traces are the same in every basis -/
theorem trace_invariant (S : (Matrix n n K)ˣ) (r : Matrix n n K) :
    Matrix.trace (conjAct S r) = Matrix.trace r := by
  unfold conjAct
  rw [Matrix.trace_mul_cycle]
  simp

/-- products of objects presented in the same basis transform as objects: `tr(Aρ)`, the action of
an operator on a state, powers … are the same inside and outside -/
theorem mul_covariant (S : (Matrix n n K)ˣ) (a b : Matrix n n K) :
    conjAct S a * conjAct S b = conjAct S (a * b) := by
  simp only [conjAct, mul_assoc]
  congr 1
  rw [← mul_assoc (S : Matrix n n K), Units.mul_inv, one_mul]

theorem trace_mul_invariant (S : (Matrix n n K)ˣ) (a b : Matrix n n K) :
    Matrix.trace (conjAct S a * conjAct S b) = Matrix.trace (a * b) := by
  rw [mul_covariant, trace_invariant]
end

end QV.C04
