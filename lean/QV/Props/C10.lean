import QV.Model.C10
import Mathlib.Algebra.BigOperators.Group.List.Basic
import Mathlib.Data.List.Nodup
import Mathlib.Analysis.SpecialFunctions.Exponential
import Mathlib.Analysis.Normed.Algebra.Exponential
import Mathlib.Tactic.Ring
import Mathlib.Analysis.Normed.Algebra.MatrixExponential

/-!
# C10 — vibronic structure follows the displaced-oscillator model
-/
namespace QV.C10
open QV QV.C03

/-! ## the vibrational signatures of one electronic state -/

/-- `numpy.ndindex(dims)` contains exactly the index tuples below `dims` -/
theorem mem_ndindex (dims v : List Nat) :
    v ∈ ndindex dims ↔ v.length = dims.length ∧ ∀ k : Nat, k < dims.length → v[k]?.getD 0 < dims[k]?.getD 0 := by
  induction dims generalizing v with
  | nil =>
    simp only [ndindex, List.mem_singleton, List.length_nil]
    constructor
    · rintro rfl; simp
    · rintro ⟨h, _⟩; exact List.length_eq_zero_iff.mp h
  | cons d ds ih =>
    simp only [ndindex, List.mem_flatMap, List.mem_range, List.mem_map]
    constructor
    · rintro ⟨i, hi, w, hw, rfl⟩
      obtain ⟨h1, h2⟩ := (ih w).mp hw
      refine ⟨by simp [h1], fun k hk => ?_⟩
      cases k with
      | zero => simpa using hi
      | succ k => simpa using h2 k (by simpa using hk)
    · rintro ⟨hl, hb⟩
      cases v with
      | nil => simp at hl
      | cons i w =>
        refine ⟨i, by simpa using hb 0 (by simp), w, (ih w).mpr ⟨by simpa using hl, fun k hk => ?_⟩, rfl⟩
        simpa using hb (k + 1) (by simpa using hk)

/-- **each electronic state carries as many vibronic states as the product of the declared level counts** -/
theorem ndindex_length (dims : List Nat) : (ndindex dims).length = dims.prod := by
  induction dims with
  | nil => simp [ndindex]
  | cons d ds ih =>
    simp only [ndindex, List.length_flatMap, List.length_map, ih, List.prod_cons]
    simp [List.sum_map_count_dedup_eq_length, List.map_const', List.sum_replicate]

/-- … each exactly once -/
theorem ndindex_nodup (dims : List Nat) : (ndindex dims).Nodup := by
  induction dims with
  | nil => simp [ndindex]
  | cons d ds ih =>
    simp only [ndindex]
    rw [List.nodup_flatMap]
    refine ⟨?_, ?_⟩
    · intro i _
      exact List.Nodup.map (fun a b h => by injection h) ih
    · apply List.Pairwise.imp _ (List.nodup_range (n := d))
      intro a b hab
      intro x hxa hxb
      simp only [List.mem_map] at hxa hxb
      obtain ⟨w, _, rfl⟩ := hxa
      obtain ⟨w', _, h⟩ := hxb
      injection h with h1 _
      exact hab h1.symm

/-- number of vibronic states of the whole aggregate -/
theorem allStates_length (elsigs : List (List Nat)) (nmax : List Nat → List Nat) :
    (allStates elsigs nmax).length = (elsigs.map fun σ => (nmax σ).prod).sum := by
  simp [allStates, List.length_flatMap, ndindex_length]

/-! ## element rules: electronic quantity × product of the modes' overlaps -/
section
variable {α : Type} [CommRing α]

theorem foldl_mul_eq_prod (f : Nat → α) (l : List Nat) (a : α) :
    l.foldl (fun res k => res * f k) a = a * (l.map f).prod := by
  induction l generalizing a with
  | nil => simp
  | cons x xs ih => simp [ih, mul_assoc]

/-- the Franck–Condon factor of two vibronic states is the product over all modes of the single-mode overlaps -/
theorem fcFactor_is_product (fc : List Nat → List Nat → Nat → Nat → Nat → α) (s1 s2 : VState) :
    fcFactor fc s1 s2 =
      ((List.range s1.2.length).map fun k => fc s1.1 s2.1 k (s1.2[k]?.getD 0) (s2.2[k]?.getD 0)).prod := by
  unfold fcFactor
  rw [foldl_mul_eq_prod]; simp

/-- **coupling between vibronic states of two different one-exciton states = resonance coupling × product of overlaps** -/
theorem vibCoupling_product (nmono : Nat) (hm : 1 < nmono) (J : Nat → Nat → α)
    (fc : List Nat → List Nat → Nat → Nat → Nat → α) (idxOf : List Nat → Nat) (s1 s2 : VState) (k l : Nat)
    (h1 : band s1.1 = 1) (h2 : band s2.1 = 1) (hk : idxOf s1.1 = k + 1) (hl : idxOf s2.1 = l + 1) :
    vibCoupling nmono J fc idxOf s1 s2 = J k l * fcFactor fc s1 s2 := by
  have hm' : nmono > 1 := hm
  unfold vibCoupling
  rw [if_pos hm', if_pos (h1.trans h2.symm), if_pos h1]
  simp [hk, hl]

/-- **dipole element = dipole of the molecule changing state × product of overlaps**, zero otherwise -/
theorem vibDipole_product (d : Nat → α) (fc : List Nat → List Nat → Nat → Nat → Nat → α) (s1 s2 : VState) :
    (∀ k, exIndex s1.1 s2.1 = some k → vibDipole d fc s1 s2 = d k * fcFactor fc s1 s2) ∧
    (exIndex s1.1 s2.1 = none → vibDipole d fc s1 s2 = 0) := by
  unfold vibDipole
  constructor
  · intro k hk; rw [hk]
  · intro hn; rw [hn]
end

/-! ## the Poisson law of the displaced oscillator is a probability distribution -/

/-- `p_n = e^{−S} Sⁿ / n!` sums to one for every Huang–Rhys factor `S` -/
theorem poisson_sums_to_one (S : ℝ) : HasSum (fun n : ℕ => Real.exp (-S) * S ^ n / n.factorial) 1 := by
  have h := NormedSpace.expSeries_div_hasSum_exp (𝔸 := ℝ) S
  rw [← Real.exp_eq_exp_ℝ] at h
  have h2 := h.mul_left (Real.exp (-S))
  have e : Real.exp (-S) * Real.exp S = 1 := by rw [← Real.exp_add]; simp
  rw [e] at h2
  have hf : (fun n : ℕ => Real.exp (-S) * S ^ n / n.factorial) = fun i : ℕ => Real.exp (-S) * (S ^ i / i.factorial) := by
    funext n; ring
  rw [hf]; exact h2

/-! ## the overlap matrix is orthogonal -/
section
open NormedSpace Matrix

/-- the exponential of a real antisymmetric matrix is orthogonal -/
theorem exp_skew_orthogonal {n : Type} [Fintype n] [DecidableEq n] (A : Matrix n n ℝ) (h : Aᵀ = -A) :
    exp A * (exp A)ᵀ = 1 := by
  rw [← Matrix.exp_transpose, h, Matrix.exp_neg]
  exact Matrix.mul_nonsing_inv _ ((Matrix.isUnit_iff_isUnit_det _).mp (Matrix.isUnit_exp A))

/-- **`shift_operator(d)` exponentiates `(d·a† − d·a)/√2` with `a† = aᵀ` real — an antisymmetric matrix —
so the (untruncated, here: 100-level) overlap matrix is exactly orthogonal**, for every displacement and
every basis size; only the `[:20,:20]` cut of it is "orthogonal up to truncation" -/
theorem shift_operator_orthogonal {n : Type} [Fintype n] [DecidableEq n] (a : Matrix n n ℝ) (c : ℝ) :
    exp (c • (aᵀ - a)) * (exp (c • (aᵀ - a)))ᵀ = 1 := by
  apply exp_skew_orthogonal
  rw [Matrix.transpose_smul, Matrix.transpose_sub, Matrix.transpose_transpose, ← smul_neg, neg_sub]
end

/-- non-vacuity: two modes with 2 and 3 levels -/
example : ndindex [2, 3] = [[0, 0], [0, 1], [0, 2], [1, 0], [1, 1], [1, 2]] := by decide

end QV.C10
