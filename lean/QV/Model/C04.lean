import QV.Core.Tab
/-!
Model of the basis bookkeeping of `Manager` / `eigenbasis_of` / `BasisManaged`
(quantarhei/core/managers.py, utils/types.py).

`T` is the type of basis transformations with product `mul`, inverse `inv`,
unit `one`; `R` the type of object representations with the change of basis
`act S r` (= `S⁻¹ r S` for operators).  The registry `basis_registered` is kept
per object (`regs` = the levels at which the object is registered), which is the
same information as the per-level lists of the code.
-/
namespace QV.C04

structure Obj (R : Type) where
  rep : R
  basis : Nat
  prot : Bool
  regs : List Nat

structure BState (T R : Type) where
  levels : List T                 -- `basis_transformations`, innermost first; depth = current basis id
  objs : List (Nat × Obj R)       -- managed objects by id
  opStack : List (Option Nat)     -- `previous_op` of the entered contexts (innermost first)
  curOp : Option Nat              -- `Manager.current_basis_operator`
  inCtx : Bool                    -- `_in_eigenbasis_of_context`

structure Alg (T R : Type) where
  mul : T → T → T
  inv : T → T
  one : T
  act : T → R → R                 -- representation in the basis reached by `S`

section
variable {T R : Type} (A : Alg T R)

def depth (s : BState T R) : Nat := s.levels.length

/-- product `Z_{b+1} ⋯ Z_d` accumulated by the scroll-back loop of `transform_to_current_basis`
for an object whose basis is `k` levels below the current one -/
def scrollBack : Nat → List T → T
  | 0, _ => A.one
  | _, [] => A.one
  | k + 1, z :: zs => A.mul (scrollBack k zs) z

/-- `Manager.transform_to_current_basis(operator)` on one object -/
def toCurrent (s : BState T R) (o : Obj R) : Obj R :=
  if o.prot then o
  else if o.basis = depth s then o
  else
    let d := depth s
    { o with rep := A.act (scrollBack A (d - o.basis) s.levels) o.rep, basis := d,
             regs := if d ∈ o.regs then o.regs else d :: o.regs }

def getObj (s : BState T R) (id : Nat) : Option (Obj R) := s.objs.lookup id

def setObj (s : BState T R) (id : Nat) (o : Obj R) : BState T R :=
  { s with objs := (id, o) :: s.objs.filter (fun p => p.1 != id) }

/-- creating a managed object inside the current basis -/
def create (s : BState T R) (id : Nat) (r : R) : BState T R :=
  let d := depth s
  setObj s id { rep := r, basis := d, prot := false, regs := if d = 0 then [] else [d] }

/-- reading `.data` (lazy transformation to the current basis); returns the value read -/
def read (s : BState T R) (id : Nat) : BState T R × Option R :=
  match getObj s id with
  | none => (s, none)
  | some o =>
    let o' := toCurrent A s o
    (setObj s id o', some o'.rep)

/-- assigning `.data`: the old value is transformed first, then replaced -/
def write (s : BState T R) (id : Nat) (r : R) : BState T R :=
  match getObj s id with
  | none => s
  | some o => setObj s id { toCurrent A s o with rep := r }

def setProt (s : BState T R) (id : Nat) (p : Bool) : BState T R :=
  match getObj s id with
  | none => s
  | some o => setObj s id { o with prot := p }

/-- `eigenbasis_of(op).__init__` + `__enter__`; `S` is what `get_diagonalization_matrix` returned -/
def enter (s : BState T R) (opId : Nat) (S : T) : BState T R :=
  let s1 := (read A s opId).1
  { s1 with levels := S :: s1.levels, opStack := s.curOp :: s.opStack, curOp := some opId, inCtx := true }

/-- what `eigenbasis_of.__exit__` does to one object when the context with id `bb` and
transformation `S` is left -/
def exitObj (S : T) (bb : Nat) (o : Obj R) : Obj R :=
  if bb ∈ o.regs then
    { rep := if o.prot then o.rep else A.act (A.inv S) o.rep,
      basis := bb - 1, prot := o.prot,
      regs := let r := o.regs.filter (· != bb)
              if bb - 1 = 0 ∨ (bb - 1) ∈ r then r else (bb - 1) :: r }
  else o

/-- `eigenbasis_of.__exit__` -/
def exit (s : BState T R) : BState T R :=
  match s.levels with
  | [] => s
  | S :: rest =>
    { levels := rest, objs := s.objs.map (fun p => (p.1, exitObj A S (rest.length + 1) p.2)),
      opStack := s.opStack.tail, curOp := s.opStack.head?.getD none,
      inCtx := if rest.length = 0 then false else s.inCtx }

inductive Op (T R : Type) where
  | enter (opId : Nat) (S : T)
  | exit
  | create (id : Nat) (r : R)
  | read (id : Nat)
  | write (id : Nat) (r : R)

def step (s : BState T R) : Op T R → BState T R
  | .enter i S => enter A s i S
  | .exit => exit A s
  | .create i r => create s i r
  | .read i => (read A s i).1
  | .write i r => write A s i r

def run (s : BState T R) (ops : List (Op T R)) : BState T R := ops.foldl (step A) s

def empty : BState T R := { levels := [], objs := [], opStack := [], curOp := none, inCtx := false }
end

end QV.C04
