import QV.Props.C13
import Mathlib.RingTheory.RootsOfUnity.PrimitiveRoots
import Mathlib.Algebra.Field.GeomSum
import Mathlib.RingTheory.RootsOfUnity.Complex

/-!
# C13 — the inverse transform undoes the transform (complete axes, every length)
With `ζ` a primitive `n`-th root of unity in a field (standing for `e^{−2πi/n}`): the model of
`get_inverse_Fourier_transform` applied to the model of `get_Fourier_transform` gives the function back, for every
length `n ≥ 1`, even or odd, whenever the two step factors satisfy `dt · c · n = 1` (`c = dω/2π = 1/(n·dt)`).
-/
namespace QV.C13
open QV Finset

variable {K : Type} [Field K]

theorem npow_eq_pow (z : K) (k : Nat) : npow z k = z ^ k := by
  induction k with
  | zero => simp [npow]
  | succ k ih => simp [npow, ih, pow_succ]

/-- sum of the powers of an `n`-th root of unity over a complete residue system -/
theorem sum_pow_root_one {n : Nat} (x : K) (hx1 : x = 1) : (∑ a : Fin n, x ^ a.val) = (n : K) := by
  subst hx1; simp

theorem sum_pow_root_ne {n : Nat} (x : K) (hx : x ^ n = 1) (h1 : x ≠ 1) : (∑ a : Fin n, x ^ a.val) = 0 := by
  rw [Fin.sum_univ_eq_sum_range (fun a => x ^ a) n, geom_sum_eq h1, hx, sub_self, zero_div]

/-- shifting the index by a constant permutes a complete residue system -/
theorem sum_shift {n : Nat} (hn : 0 < n) (s : Nat) (f : Nat → K) (hf : ∀ a, f (a % n) = f a) :
    (∑ j : Fin n, f (j.val + s)) = ∑ a : Fin n, f a.val := by
  let σ : Fin n → Fin n := fun j => ⟨(j.val + s) % n, Nat.mod_lt _ hn⟩
  have hinj : Function.Injective σ := by
    intro a b hab
    have e : (a.val + s) % n = (b.val + s) % n := congrArg Fin.val hab
    have : a.val % n = b.val % n := Nat.ModEq.add_right_cancel' s e
    rw [Nat.mod_eq_of_lt a.isLt, Nat.mod_eq_of_lt b.isLt] at this
    exact Fin.ext this
  have hbij : Function.Bijective σ := Finite.injective_iff_bijective.mp hinj
  refine Fintype.sum_bijective σ hbij _ _ (fun j => ?_)
  show f (j.val + s) = f ((j.val + s) % n)
  rw [hf]

/-- **inverse ∘ forward = identity on complete axes**, every length, every data -/
theorem iftComplete_ftComplete {n : Nat} (hn : 0 < n) (ζ : K) (hζ : IsPrimitiveRoot ζ n) (dt c : K)
    (hc : dt * c * (n : K) = 1) (y : Fin n → K) (k : Fin n) :
    iftComplete ζ c (ftComplete ζ⁻¹ dt y) k = y k := by
  have hζn : ζ ^ n = 1 := hζ.pow_eq_one
  have hζ0 : ζ ≠ 0 := hζ.ne_zero (Nat.pos_iff_ne_zero.mp hn)
  have hin : (ζ⁻¹) ^ n = 1 := by rw [inv_pow, hζn, inv_one]
  rw [iftComplete_eq_directSum hn]
  have hfun : ftComplete ζ⁻¹ dt y = directSum ζ⁻¹ dt y := funext (ftComplete_eq_directSum hn ζ⁻¹ dt y)
  rw [hfun]
  unfold directSum
  simp only [sumFin_eq_sum, npow_eq_pow]
  set h := n / 2 with hh
  -- reduce the exponents
  have red : ∀ (z : K), z ^ n = 1 → ∀ e : Nat, z ^ (e % n) = z ^ e := fun z hz e => (pow_eq_pow_mod e hz).symm
  simp only [red ζ hζn, red ζ⁻¹ hin]
  -- exchange the sums
  have step1 : (∑ j : Fin n, (∑ m : Fin n, y m * ζ⁻¹ ^ ((j.val + n - h) * (m.val + n - h))) * dt * ζ ^ ((k.val + n - h) * (j.val + n - h)))
      = ∑ m : Fin n, y m * dt * ∑ j : Fin n, (ζ ^ (k.val + n - h) * ζ⁻¹ ^ (m.val + n - h)) ^ (j.val + n - h) := by
    simp only [Finset.sum_mul, Finset.mul_sum]
    rw [Finset.sum_comm]
    refine Finset.sum_congr rfl (fun m _ => Finset.sum_congr rfl (fun j _ => ?_))
    rw [mul_pow, ← pow_mul, ← pow_mul]
    ring
  rw [step1]
  -- the inner sum is n for m = k and 0 otherwise
  have hhn : h < n := Nat.div_lt_self hn (by norm_num)
  have inner : ∀ m : Fin n, (∑ j : Fin n, (ζ ^ (k.val + n - h) * ζ⁻¹ ^ (m.val + n - h)) ^ (j.val + n - h))
      = if m = k then (n : K) else 0 := by
    intro m
    set x := ζ ^ (k.val + n - h) * ζ⁻¹ ^ (m.val + n - h) with hx
    have hxn : x ^ n = 1 := by
      rw [hx, mul_pow, ← pow_mul, ← pow_mul, mul_comm _ n, mul_comm _ n, pow_mul, pow_mul, hζn, hin, one_pow, one_pow, mul_one]
    have e1 : (∑ j : Fin n, x ^ (j.val + n - h)) = ∑ j : Fin n, x ^ (j.val + (n - h)) :=
      Finset.sum_congr rfl (fun j _ => by congr 1; omega)
    rw [e1, sum_shift hn (n - h) (fun a => x ^ a) (fun a => (pow_eq_pow_mod a hxn).symm)]
    have hiff : x = 1 ↔ m = k := by
      rw [hx, inv_pow, mul_inv_eq_one₀ (pow_ne_zero _ hζ0)]
      constructor
      · intro hp
        have hmod : (k.val + n - h) % n = (m.val + n - h) % n := by
          apply hζ.pow_inj (Nat.mod_lt _ hn) (Nat.mod_lt _ hn)
          rw [← pow_eq_pow_mod _ hζn, ← pow_eq_pow_mod _ hζn]
          exact hp
        have e2 : k.val + n - h = k.val + (n - h) := by omega
        have e3 : m.val + n - h = m.val + (n - h) := by omega
        rw [e2, e3] at hmod
        have : k.val % n = m.val % n := Nat.ModEq.add_right_cancel' (n - h) hmod
        rw [Nat.mod_eq_of_lt k.isLt, Nat.mod_eq_of_lt m.isLt] at this
        exact Fin.ext this.symm
      · intro hmk
        rw [hmk]
    by_cases hmk : m = k
    · rw [if_pos hmk, sum_pow_root_one x (hiff.mpr hmk)]
    · rw [if_neg hmk, sum_pow_root_ne x hxn (fun hx1 => hmk (hiff.mp hx1))]
  simp only [inner, mul_ite, mul_zero, Finset.sum_ite_eq', Finset.mem_univ, if_true]
  have e : dt * (n : K) * c = 1 := by rw [← hc]; ring
  calc y k * dt * (n : K) * c = y k * (dt * (n : K) * c) := by ring
    _ = y k := by rw [e, mul_one]

/-- **the other order**: transforming a function on the frequency axis to time and inverse-transforming gives it back
(`get_inverse_Fourier_transform` of a function of time followed by `get_Fourier_transform` of the result, and vice versa:
the two directions are the same index map with conjugate roots) -/
theorem ftComplete_iftComplete {n : Nat} (hn : 0 < n) (ζ : K) (hζ : IsPrimitiveRoot ζ n) (dt c : K)
    (hc : dt * c * (n : K) = 1) (y : Fin n → K) (k : Fin n) :
    ftComplete ζ⁻¹ dt (iftComplete ζ c y) k = y k := by
  have hinv : IsPrimitiveRoot ζ⁻¹ n := hζ.inv
  have h := iftComplete_ftComplete hn ζ⁻¹ hinv c dt (by rw [← hc]; ring) y k
  rw [inv_inv] at h
  exact h

/-! ## upper-half axes -/

theorem shift_back (n h j : Nat) (hh : h < n) (hj : j < n) : ((j + h) % n + n - h) % n = j := by
  by_cases hc : j + h < n
  · rw [Nat.mod_eq_of_lt hc]
    have : j + h + n - h = j + n := by omega
    rw [this, Nat.add_mod_right, Nat.mod_eq_of_lt hj]
  · have e : (j + h) % n = j + h - n := by
      rw [Nat.mod_eq_sub_mod (by omega), Nat.mod_eq_of_lt (by omega)]
    rw [e]
    have : j + h - n + n - h = j := by omega
    rw [this, Nat.mod_eq_of_lt hj]

/-- `ifftshift` undoes `fftshift`, every length -/
theorem ifftshift_fftshift {β : Type} {n : Nat} (hn : 0 < n) (x : Fin n → β) : ifftshift (fftshift x) = x := by
  have hh : n / 2 < n := Nat.div_lt_self hn (by norm_num)
  funext j
  unfold ifftshift fftshift roll
  congr 1
  apply Fin.ext
  show ((j.val + n - (n - n / 2) % n) % n + n - (n / 2) % n) % n = j.val
  rw [rot_mod n (n / 2) j.val hh, Nat.mod_eq_of_lt hh]
  exact shift_back n (n / 2) j.val hh j.isLt

/-- the upper-half transform is the complete transform of the centred Hermitian extension -/
theorem ftUpper_eq_ftComplete {N : Nat} (hN : 0 < N) (conj : K → K) (ζi dt : K) (y : Fin N → K) :
    ftUpper conj ζi dt y = ftComplete ζi dt (fftshift (hermExt conj y)) := by
  funext j
  unfold ftUpper ftComplete
  rw [ifftshift_fftshift (by omega)]

/-- **transform, then inverse transform, on upper-half axes gives the function back**: every number `N` of time points,
every data (the first value need not be real), whatever conjugation fills the lower half -/
theorem iftUpper_ftUpper {N : Nat} (hN : 0 < N) (conj : K → K) (ζ : K) (hζ : IsPrimitiveRoot ζ (2 * N)) (dt c : K)
    (hc : dt * c * ((2 * N : Nat) : K) = 1) (y : Fin N → K) (k : Fin N) :
    iftUpper ζ c (ftUpper conj ζ⁻¹ dt y) k = y k := by
  unfold iftUpper
  rw [ftUpper_eq_ftComplete hN, iftComplete_ftComplete (by omega) ζ hζ dt c hc]
  unfold fftshift roll hermExt
  have hk := k.isLt
  have h1 : (2 * N) / 2 = N := by omega
  have h2 : N % (2 * N) = N := Nat.mod_eq_of_lt (by omega)
  have h3 : (N + k.val + 2 * N - N) % (2 * N) = k.val := by
    have : N + k.val + 2 * N - N = k.val + 2 * N := by omega
    rw [this, Nat.add_mod_right, Nat.mod_eq_of_lt (by omega)]
  simp only [h1, h2, h3, hk, dif_pos]

/-- the hypothesis is satisfiable for every length: over ℂ the number `e^{2πi/n}` is a primitive `n`-th root -/
example (n : ℕ) (hn : n ≠ 0) : ∃ ζ : ℂ, IsPrimitiveRoot ζ n := ⟨_, Complex.isPrimitiveRoot_exp n hn⟩

end QV.C13
