#!/bin/bash
# Runs the repository's pinned baseline suite (guard off; there are no hooks) and
# compares with BASELINE.json's stable_pass list. usage: harness/baseline.sh [outdir]
out=${1:-/tmp/qv-baseline}
mkdir -p "$out"
cd /repo && /venv/bin/python -m pytest -ra -q -p no:cacheprovider --timeout=900 --continue-on-collection-errors --junitxml="$out/junit.xml" > "$out/log.txt" 2>&1
/venv/bin/python - "$out/junit.xml" <<'P'
import sys, json, xml.etree.ElementTree as ET
base = set(json.load(open('/root/.vp/BASELINE.json'))['stable_pass'])
passed = set()
for tc in ET.parse(sys.argv[1]).getroot().iter('testcase'):
    if not any(ch.tag in ('failure', 'error', 'skipped') for ch in tc):
        passed.add(tc.get('classname') + '::' + tc.get('name'))
missing = sorted(base - passed)
print("baseline stable_pass: %d, passed now: %d of them, missing: %s" % (len(base), len(base & passed), missing))
sys.exit(1 if missing else 0)
P
